from enum import Enum
from pathlib import Path
from typing import Any, Optional, TypeAlias

import libcst as cst
from libcst import MetadataDependent, matchers
from libcst.codemod import CodemodContext
from libcst.matchers import MatcherDecoratableTransformer


class BaseType(Enum):
    """
    An enumeration representing the base literal types in Python.
    """

    NUMBER = 1
    LIST = 2
    STRING = 3
    BYTES = 4
    NONE = 5
    TRUE = 6
    FALSE = 7


def infer_expression_type(node: cst.BaseExpression) -> Optional[BaseType]:
    """
    Tries to infer if the resulting type of a given expression is one of the base literal types.
    """
    # The current implementation covers some common cases and is in no way complete
    match node:
        case cst.Name(value="None"):
            return BaseType.NONE
        case cst.Name(value="True"):
            return BaseType.TRUE
        case cst.Name(value="False"):
            return BaseType.FALSE
        case (
            cst.Integer()
            | cst.Imaginary()
            | cst.Float()
            | cst.Call(func=cst.Name("int"))
            | cst.Call(func=cst.Name("float"))
            | cst.Call(func=cst.Name("abs"))
            | cst.Call(func=cst.Name("len"))
        ):
            return BaseType.NUMBER
        case cst.Call(name=cst.Name("list")) | cst.List() | cst.ListComp():
            return BaseType.LIST
        case cst.Call(func=cst.Name("str")) | cst.FormattedString():
            return BaseType.STRING
        case cst.SimpleString():
            if "b" in node.prefix.lower():
                return BaseType.BYTES
            return BaseType.STRING
        case cst.ConcatenatedString():
            return infer_expression_type(node.left)
        case cst.BinaryOperation(operator=cst.Add()):
            return infer_expression_type(node.left) or infer_expression_type(node.right)
        case cst.BinaryOperation(operator=cst.Modulo()):
            return infer_expression_type(node.left) or infer_expression_type(node.right)
        case cst.IfExp():
            if_true = infer_expression_type(node.body)
            or_else = infer_expression_type(node.orelse)
            if if_true == or_else:
                return if_true
    return None


class SequenceExtension:
    def __init__(self, sequence: list[cst.CSTNode]) -> None:
        self.sequence = sequence


class Append(SequenceExtension):
    pass


class Prepend(SequenceExtension):
    pass


ReplacementNodeType: TypeAlias = (
    cst.CSTNode | cst.RemovalSentinel | cst.FlattenSentinel | dict[str, Any]
)


class ReplaceNodes(cst.CSTTransformer):
    """
    Replace nodes with their corresponding values in a given dict. The replacements dictionary should either contain a mapping from a node to another node, RemovalSentinel, or FlattenSentinel to be replaced, or a dict mapping each attribute, by name, to a new value. Additionally if the attribute is a sequence, you may pass Append(l)/Prepend(l), where l is a list of nodes, to append or prepend, respectively.
    """

    def __init__(
        self,
        replacements: dict[
            cst.CSTNode,
            ReplacementNodeType | dict[str, Any],
        ],
    ):
        self.replacements = replacements

    def on_leave(self, original_node, updated_node):
        if original_node in self.replacements.keys():
            replacement = self.replacements[original_node]
            match replacement:
                case dict():
                    changes_dict = {}
                    for key, value in replacement.items():
                        match value:
                            case Prepend():
                                changes_dict[key] = value.sequence + [
                                    *getattr(updated_node, key)
                                ]

                            case Append():
                                changes_dict[key] = [
                                    *getattr(updated_node, key)
                                ] + value.sequence
                            case _:
                                changes_dict[key] = value
                    return updated_node.with_changes(**changes_dict)
                case cst.CSTNode() | cst.RemovalSentinel() | cst.FlattenSentinel():
                    return replacement
        return updated_node


class MetadataPreservingTransformer(
    MatcherDecoratableTransformer, cst.MetadataDependent
):
    """
    The CSTTransformer equivalent of ContextAwareVisitor. Will preserve metadata passed through a context. You should not chain more than one of these, otherwise metadata will not reflect the state of the tree.
    """

    def __init__(self, context: CodemodContext) -> None:
        MetadataDependent.__init__(self)
        MatcherDecoratableTransformer.__init__(self)
        self.context = context
        if dependencies := self.get_inherited_dependencies():
            if (wrapper := self.context.wrapper) is None:
                raise ValueError(
                    f"Attempting to instantiate {self.__class__.__name__} outside of "
                    + "an active transform. This means that metadata hasn't been "
                    + "calculated and we cannot successfully create this visitor."
                )
            for dep in dependencies:
                if dep not in wrapper._metadata:
                    raise ValueError(
                        f"Attempting to access metadata {dep.__name__} that was not a "
                        + "declared dependency of parent transform! This means it is "
                        + "not possible to compute this value. Please ensure that all "
                        + f"parent transforms of {self.__class__.__name__} declare "
                        + f"{dep.__name__} as a metadata dependency."
                    )
            self.metadata = {dep: wrapper._metadata[dep] for dep in dependencies}


def is_django_settings_file(file_path: Path):
    if "settings.py" not in file_path.name:
        return False
    # the most telling fact is the presence of a manage.py file in the parent directory
    if file_path.parent.parent.is_dir():
        return "manage.py" in (f.name for f in file_path.parent.parent.iterdir())
    return False


def is_setup_py_file(file_path: Path):
    return file_path.name == "setup.py"


def get_call_name(call: cst.Call) -> str:
    """
    Extracts the full name from a function call

    """
    # is it a composite name? e.g. a.b.c
    if matchers.matches(call.func, matchers.Attribute()):
        return call.func.attr.value
    # It's a simple Name
    return call.func.value


def get_function_name_node(call: cst.Call) -> Optional[cst.Name]:
    match call.func:
        case cst.Name():
            return call.func
        case cst.Attribute():
            return call.func.attr
    return None


def is_assigned_to_True(original_node: cst.Assign):
    return (
        isinstance(original_node.value, cst.Name)
        and original_node.value.value == "True"
    )


def is_zero(node: cst.CSTNode) -> bool:
    match node:
        case cst.Integer() | cst.Float():
            try:
                return float(node.value) == 0
            except (ValueError, TypeError):
                return False
        case cst.Call(func=cst.Name("int"), args=[]) | cst.Call(
            func=cst.Name("float"), args=[]
        ):
            # int() or float() == 0
            return True
        case cst.Call(
            func=cst.Name("int"), args=[cst.Arg(value=cst.Name(value="False"))]
        ) | cst.Call(
            func=cst.Name("float"), args=[cst.Arg(value=cst.Name(value="False"))]
        ):
            # int(False) or float(False)
            return True
        case cst.Call(func=cst.Name("int")) | cst.Call(func=cst.Name("float")):
            return is_zero(node.args[0].value)
    return False
