(** The rewrite kernels of five refactoring codemods, as written (src/core_codemods/*.py), on the libcst-shaped tree of
    MiniPy.v.  Behaviour that depends on how the source is written is a parameter taken from Generated/Tables.v
    (combine_cfg, invert_cfg, generator_cfg: pinned form vs repaired form).  Definitions only. *)
From CM Require Export Model.MiniPy.
From Coq Require Import String.

Definition map_opt {A B} (f : A -> option B) : list A -> option (list B) :=
  fix go (l : list A) : option (list B) :=
    match l with
    | [] => Some []
    | a :: t => match f a, go t with Some b, Some bs => Some (b :: bs) | _, _ => None end
    end.


(** [transformer.leave_X] on every node, children first: [f] sees the node rebuilt from its rewritten children *)
Definition rebuild (g : expr -> expr) (e : expr) : expr :=
  match e with
  | EName _ | EConst _ | EType _ => e
  | ETuple es => ETuple (map g es)
  | EList es => EList (map g es)
  | ESet es => ESet (map g es)
  | EMeth r m args => EMeth r m (map g args)
  | ECall f args => ECall f (map g args)
  | EBool p o l r => EBool p o (g l) (g r)
  | ENot p a => ENot p (g a)
  | ECmp p l rest => ECmp p (g l) (map (fun cb => (fst cb, g (snd cb))) rest)
  | EListComp elt x it => EListComp (g elt) x (g it)
  | EGen p elt x it => EGen p (g elt) x (g it)
  | EFloorDiv l r => EFloorDiv (g l) (g r)
  | EJuxt n a => EJuxt n (g a)
  end.
Fixpoint bu (f : expr -> expr) (e : expr) : expr :=
  f match e with
    | EName _ | EConst _ | EType _ => e
    | ETuple es => ETuple (map (bu f) es)
    | EList es => EList (map (bu f) es)
    | ESet es => ESet (map (bu f) es)
    | EMeth r m args => EMeth r m (map (bu f) args)
    | ECall g args => ECall g (map (bu f) args)
    | EBool p o l r => EBool p o (bu f l) (bu f r)
    | ENot p a => ENot p (bu f a)
    | ECmp p l rest => ECmp p (bu f l) (map (fun cb => (fst cb, bu f (snd cb))) rest)
    | EListComp elt x it => EListComp (bu f elt) x (bu f it)
    | EGen p elt x it => EGen p (bu f elt) x (bu f it)
    | EFloorDiv l r => EFloorDiv (bu f l) (bu f r)
    | EJuxt n a => EJuxt n (bu f a)
    end.
(** some node, as [f] sees it (children already rewritten), satisfies [bad] *)
Fixpoint bu_any (f : expr -> expr) (bad : expr -> bool) (e : expr) : bool :=
  let anyb := fix anyb (es : list expr) : bool := match es with [] => false | a :: t => bu_any f bad a || anyb t end in
  bad (rebuild (bu f) e) ||
  match e with
  | EName _ | EConst _ | EType _ => false
  | ETuple es | EList es | ESet es => anyb es
  | EMeth _ _ args | ECall _ args => anyb args
  | EBool _ _ l r | EFloorDiv l r => bu_any f bad l || bu_any f bad r
  | ENot _ a | EJuxt _ a => bu_any f bad a
  | ECmp _ l rest => bu_any f bad l ||
                     (fix go (rs : list (cmpop * expr)) : bool :=
                        match rs with [] => false | (_, b) :: t => bu_any f bad b || go t end) rest
  | EListComp elt _ it | EGen _ elt _ it => bu_any f bad elt || bu_any f bad it
  end.

(** * combine_calls_base.py (+ combine_startswith_endswith.py, combine_isinstance_issubclass.py) *)
Inductive combine_kind := KStartsEnds | KInstSub.
Inductive cfunc := FMeth (m : meth) | FBuiltin (f : builtin).
Definition combinable_funcs (k : combine_kind) : list cfunc :=
  match k with
  | KStartsEnds => [FMeth Startswith; FMeth Endswith]
  | KInstSub => [FBuiltin BIsinstance; FBuiltin BIssubclass]
  end.

(** a libcst [Name]: identifiers, builtin type names, True/False/None, the prelude's NAN *)
Definition name_like (e : expr) : bool :=
  match e with
  | EName _ | EType _ | EConst (CBool _) | EConst CNone | EConst CNaN => true
  | _ => false
  end.
Definition is_tuple (e : expr) : bool := match e with ETuple _ => true | _ => false end.
Definition is_strlit (e : expr) : bool := match e with EConst (CStr _) => true | _ => false end.

(** equality of single-token nodes = equality of their source text ([Name.value], [Integer.value], [SimpleString.value]) *)
Definition const_eqb (a b : const) : bool :=
  match a, b with
  | CBool x, CBool y => Bool.eqb x y
  | CInt x, CInt y => Z.eqb x y
  | CStr x, CStr y => str_eqb x y
  | CNone, CNone | CNaN, CNaN => true
  | _, _ => false
  end.
Definition atom_eqb (a b : expr) : bool :=
  match a, b with
  | EName x, EName y => N.eqb x y
  | EConst x, EConst y => const_eqb x y
  | EType x, EType y => ty_eqb x y
  | _, _ => false
  end.

(** [make_call_matcher]: [Some (the Name whose text identifies the instance, argument to combine)] when [e] is a call
    the codemod combines *)
Definition match_call (c : cfunc) (e : expr) : option (expr * expr) :=
  match c, e with
  | FMeth m, EMeth r m' [a] =>
      if meth_eqb m m' && (is_tuple a || is_strlit a || name_like a) then Some (EName r, a) else None
  | FBuiltin f, ECall f' [x; a] =>
      if builtin_eqb f f' && name_like x && (name_like a || is_tuple a) then Some (x, a) else None
  | _, _ => None
  end.

(** [getattr(element.value, dedupilcation_attr, None)]: "evaluated_value" exists on string and integer literals,
    "value" on every atom that is a single token *)
Definition dedup_key (k : combine_kind) (e : expr) : bool :=       (* the element has a (non-None) de-duplication value *)
  match k, e with
  | _, EConst (CStr _) => true
  | _, EConst (CInt z) => (0 <=? z)%Z
  | KInstSub, (EName _ | EType _ | EConst (CBool _) | EConst CNone | EConst CNaN) => true
  | _, _ => false
  end.
Fixpoint dedup (k : combine_kind) (seen : list expr) (es : list expr) : list expr :=
  match es with
  | [] => []
  | a :: t => if dedup_key k a
              then if existsb (atom_eqb a) seen then dedup k seen t else a :: dedup k (a :: seen) t
              else a :: dedup k seen t
  end.
Definition arg_elements (a : expr) : list expr := match a with ETuple es => es | _ => [a] end.
(** [combine_calls(first, second)]: the first call with its combinable argument replaced by the merged tuple *)
Definition with_arg (call arg : expr) : expr :=
  match call with
  | EMeth r m _ => EMeth r m [arg]
  | ECall f (x :: _) => ECall f [x; arg]
  | _ => call
  end.
Definition combine_two (k : combine_kind) (c1 a1 a2 : expr) : expr :=
  with_arg c1 (ETuple (dedup k [] (arg_elements a1 ++ arg_elements a2))).

(** one pass of the three matchers for one combinable function at the node [EBool p BOr l r] *)
Definition fold_with (cfg : combine_cfg) (k : combine_kind) (c : cfunc) (p : bool) (l r : expr) : option expr :=
  match match_call c l with
  | Some (il, al) =>
      match match_call c r with
      | Some (ir, ar) =>                                                  (* matches_call_or_call *)
          if atom_eqb il ir then Some (combine_two k l al ar) else None
      | None =>
          match r with
          | EBool pr o rl rr =>                                           (* matches_call_or_boolop, fold right *)
              match match_call c rl with
              | Some (irl, arl) =>
                  if atom_eqb il irl && (negb (cc_inner_or cfg) || bop_eqb o BOr)
                  then Some (EBool (cc_parens cfg && p) o (combine_two k l al arl) rr) else None
              | None => None
              end
          | _ => None
          end
      end
  | None =>
      match l, match_call c r with
      | EBool pl o ll lr, Some (ir, ar) =>                                (* matches_boolop_or_call, fold left *)
          match match_call c lr with
          | Some (ilr, alr) =>
              if atom_eqb ilr ir && (negb (cc_inner_or cfg) || bop_eqb o BOr)
              then Some (EBool (cc_parens cfg && p) o ll (combine_two k lr alr ar)) else None
          | None => None
          end
      | _, _ => None
      end
  end.
Fixpoint first_some {A} (l : list (option A)) : option A :=
  match l with [] => None | Some a :: _ => Some a | None :: t => first_some t end.
Definition fold_node (cfg : combine_cfg) (k : combine_kind) (p : bool) (l r : expr) : expr :=
  match first_some (map (fun c => fold_with cfg k c p l r) (combinable_funcs k)) with
  | Some e => e
  | None => EBool p BOr l r
  end.

(** [leave_BooleanOperation] on every node, bottom-up *)
Definition combine_step (cfg : combine_cfg) (k : combine_kind) (e : expr) : expr :=
  match e with
  | EBool p BOr l r => fold_node cfg k p l r
  | _ => e
  end.
Definition rw_combine (cfg : combine_cfg) (k : combine_kind) : expr -> expr := bu (combine_step cfg k).

(** * invert_boolean_check.py *)
Fixpoint assoc_op (o : cmpop) (t : list (cmpop * cmpop)) : option cmpop :=
  match t with [] => None | (a, b) :: r => if cmpop_eqb o a then Some b else assoc_op o r end.
(** nodes with a [.value] attribute (Name, Integer, SimpleString); on the others `comparator.value` raises *)
Definition has_value_attr (e : expr) : bool :=
  match e with
  | EName _ | EType _ => true
  | EConst (CInt z) => (0 <=? z)%Z           (* a negative literal is a UnaryOperation *)
  | EConst _ => true
  | _ => false
  end.
Definition is_juxt (e : expr) : bool := match e with EJuxt _ _ => true | _ => false end.
(** [_invert_comparisons]: [None] = the repaired default branch declines *)
Fixpoint invert_targets (cfg : invert_cfg) (rest : list (cmpop * expr)) : option (list (cmpop * expr)) :=
  match rest with
  | [] => Some []
  | (o, c) :: t =>
      match invert_targets cfg t with
      | None => None
      | Some t' =>
          (* a target garbled by an earlier inversion has a ComparisonTarget in its operator slot: no case matches it *)
          match (if is_juxt c then None else assoc_op o (iv_table cfg)) with
          | Some o' => Some ((o', c) :: t')
          | None => match iv_default cfg with
                    | KeepTarget => Some ((o, match c with EJuxt n c0 => EJuxt (N.succ n) c0 | _ => EJuxt 0 c end) :: t')
                                                   (* prints ` o c` followed by `c` again; once more per further inversion *)
                    | LeaveUnchanged => None
                    end
          end
      end
  end.
(** [leave_UnaryOperation] at [ENot p a] whose operand [a] is already rewritten.
    Outer [None] = the transformer raises (the file is then left unchanged by the pipeline). *)
Definition invert_general (cfg : invert_cfg) (p : bool) (a : expr) (pc : bool) (l : expr) (rest : list (cmpop * expr)) : expr :=
  if negb (iv_chains cfg) && negb (Nat.eqb (List.length rest) 1) then ENot p a
  else match invert_targets cfg rest with
       | Some rest' => ECmp (iv_parens cfg && (p || pc)) l rest'
       | None => ENot p a
       end.
Definition invert_node (cfg : invert_cfg) (p : bool) (a : expr) : option expr :=
  match a with
  | ECmp pc l rest =>
      match rest with
      | [(Is, c)] =>
          if is_juxt c then Some (invert_general cfg p a pc l rest)        (* the operator slot no longer holds a cst.Is *)
          else if has_value_attr c then
            match c with
            | EConst (CBool true) => Some (ENot (iv_parens cfg && p) l)    (* not x is True  ->  not x *)
            | EConst (CBool false) => Some l                               (* not x is False ->  x *)
            | _ => Some (invert_general cfg p a pc l rest)
            end
          else None
      | _ => Some (invert_general cfg p a pc l rest)
      end
  | _ => Some (ENot p a)
  end.
Definition invert_step (cfg : invert_cfg) (e : expr) : expr :=
  match e with
  | ENot p a => match invert_node cfg p a with Some e' => e' | None => e end
  | _ => e
  end.
Definition invert_raises (cfg : invert_cfg) (e : expr) : bool :=
  match e with
  | ENot p a => match invert_node cfg p a with Some _ => false | None => true end
  | _ => false
  end.
Definition rw_invert (cfg : invert_cfg) : expr -> expr := bu (invert_step cfg).
(** what ends up on disk: a transformer that raises leaves the file unchanged *)
Definition invert_file (cfg : invert_cfg) (e : expr) : expr :=
  if bu_any (invert_step cfg) (invert_raises cfg) e then e else rw_invert cfg e.

(** * use_generator.py
    [leave_Call] decides on the ORIGINAL node.  Pinned / first repair: the generator is built from the original
    [elt]/[for_in] and the method ends with `return original_node`, so every call that is not itself rewritten comes back
    unvisited and rewrites nested inside the arguments of any call are discarded.  [ug_nested]: `return updated_node`
    keeps them.  [ug_updated_parts]: the comprehension is taken from the updated node, so rewrites inside it are kept. *)
Definition gen_func (f : builtin) : bool :=
  match f with BAny | BAll | BSum | BMin | BMax => true | _ => false end.
Definition gen_call (cfg : generator_cfg) (f : builtin) (args : list expr) : expr :=
  match args with
  | EListComp elt x it :: rest =>
      if gen_func f && (negb (ug_single_arg cfg) || match rest with [] => true | _ => false end)
      then ECall f [EGen false elt x it] else ECall f args
  | _ => ECall f args
  end.
(** the call is one the codemod rewrites *)
Definition gen_hit (cfg : generator_cfg) (f : builtin) (args : list expr) : bool :=
  match args with
  | EListComp _ _ _ :: rest => gen_func f && (negb (ug_single_arg cfg) || match rest with [] => true | _ => false end)
  | _ => false
  end.
Fixpoint rw_generator (cfg : generator_cfg) (e : expr) : expr :=
  let rw := rw_generator cfg in
  match e with
  | EName _ | EConst _ | EType _ => e
  | ETuple es => ETuple (map rw es)
  | EList es => EList (map rw es)
  | ESet es => ESet (map rw es)
  | EMeth r m args => if ug_nested cfg then EMeth r m (map rw args) else e      (* a Call that is never rewritten itself *)
  | ECall f args =>
      if gen_hit cfg f args then (if ug_updated_parts cfg then gen_call cfg f (map rw args) else gen_call cfg f args)
      else if ug_nested cfg then ECall f (map rw args) else e
  | EBool p o l r => EBool p o (rw l) (rw r)
  | ENot p a => ENot p (rw a)
  | ECmp p l rest => ECmp p (rw l) (map (fun cb => (fst cb, rw (snd cb))) rest)
  | EListComp elt x it => EListComp (rw elt) x (rw it)
  | EGen p elt x it => EGen p (rw elt) x (rw it)
  | EFloorDiv l r => EFloorDiv (rw l) (rw r)
  | EJuxt n a => EJuxt n (rw a)
  end.
(** `original_node.args[0]` raises IndexError on `any()` (pinned form only); every call in the file is visited *)
Fixpoint generator_crashes (cfg : generator_cfg) (e : expr) : bool :=
  let anyb := fix anyb (es : list expr) : bool := match es with [] => false | a :: t => generator_crashes cfg a || anyb t end in
  match e with
  | EName _ | EConst _ | EType _ => false
  | ETuple es | EList es | ESet es => anyb es
  | EMeth _ _ args => anyb args
  | ECall f args => (negb (ug_single_arg cfg) && gen_func f && match args with [] => true | _ => false end) || anyb args
  | EBool _ _ l r | EFloorDiv l r => generator_crashes cfg l || generator_crashes cfg r
  | ENot _ a | EJuxt _ a => generator_crashes cfg a
  | ECmp _ l rest => generator_crashes cfg l ||
                     (fix go (rs : list (cmpop * expr)) : bool :=
                        match rs with [] => false | (_, b) :: t => generator_crashes cfg b || go t end) rest
  | EListComp elt _ it | EGen _ elt _ it => generator_crashes cfg elt || generator_crashes cfg it
  end.
Definition generator_file (cfg : generator_cfg) (e : expr) : expr :=
  if generator_crashes cfg e then e else rw_generator cfg e.

(** * use_set_literal.py: decides on the original node; the set display takes the ORIGINAL elements *)
Fixpoint rw_set_literal (e : expr) : expr :=
  let rw := rw_set_literal in
  match e with
  | EName _ | EConst _ | EType _ => e
  | ETuple es => ETuple (map rw es)
  | EList es => EList (map rw es)
  | ESet es => ESet (map rw es)
  | EMeth r m args => EMeth r m (map rw args)
  | ECall f args =>
      match f, args with
      | BSet, [EList es] => match es with [] => ECall BSet [] | _ :: _ => ESet es end
      | _, _ => ECall f (map rw args)
      end
  | EBool p o l r => EBool p o (rw l) (rw r)
  | ENot p a => ENot p (rw a)
  | ECmp p l rest => ECmp p (rw l) (map (fun cb => (fst cb, rw (snd cb))) rest)
  | EListComp elt x it => EListComp (rw elt) x (rw it)
  | EGen p elt x it => EGen p (rw elt) x (rw it)
  | EFloorDiv l r => EFloorDiv (rw l) (rw r)
  | EJuxt n a => EJuxt n (rw a)
  end.

(** * fix_hasattr_call.py: semgrep `hasattr(..., "__call__")`, then callable(<first argument, rewritten>) *)
Definition call_lit : expr := EConst (CStr (lit "__call__")).
Definition expr_is_call_lit (e : expr) : bool :=
  match e with EConst (CStr s) => str_eqb s (lit "__call__") | _ => false end.
Definition last_is_call_lit (args : list expr) : bool :=
  match rev args with a :: _ => expr_is_call_lit a | [] => false end.
Definition hasattr_fires (cfg : hasattr_cfg) (a : expr) (rest : list expr) : bool :=
  last_is_call_lit (a :: rest) && (negb (ha_two_args cfg) || match rest with [_] => true | _ => false end).
Definition hasattr_step (cfg : hasattr_cfg) (e : expr) : expr :=
  match e with
  | ECall BHasattr (a :: rest) => if hasattr_fires cfg a rest then ECall BCallable [a] else e
  | _ => e
  end.
Definition rw_hasattr (cfg : hasattr_cfg) : expr -> expr := bu (hasattr_step cfg).

(** * top-down transformers whose [leave_X] works on the ORIGINAL node: where the node function answers, the node is replaced
    by something built from its original parts (rewrites made below it are discarded); elsewhere the children are visited *)
Fixpoint td (f : expr -> option expr) (e : expr) : expr :=
  match f e with
  | Some e' => e'
  | None =>
      match e with
      | EName _ | EConst _ | EType _ => e
      | ETuple es => ETuple (map (td f) es)
      | EList es => EList (map (td f) es)
      | ESet es => ESet (map (td f) es)
      | EMeth r m args => EMeth r m (map (td f) args)
      | ECall g args => ECall g (map (td f) args)
      | EBool p o l r => EBool p o (td f l) (td f r)
      | ENot p a => ENot p (td f a)
      | ECmp p l rest => ECmp p (td f l) (map (fun cb => (fst cb, td f (snd cb))) rest)
      | EListComp elt x it => EListComp (td f elt) x (td f it)
      | EGen p elt x it => EGen p (td f elt) x (td f it)
      | EFloorDiv l r => EFloorDiv (td f l) (td f r)
      | EJuxt n a => EJuxt n (td f a)
      end
  end.
Definition children (e : expr) : list expr :=
  match e with
  | EName _ | EConst _ | EType _ => []
  | ETuple es | EList es | ESet es => es
  | EMeth _ _ args | ECall _ args => args
  | EBool _ _ l r | EFloorDiv l r => [l; r]
  | ENot _ a | EJuxt _ a => [a]
  | ECmp _ l rest => l :: map snd rest
  | EListComp elt _ it | EGen _ elt _ it => [elt; it]
  end.
(** some node of the tree (every node is visited by libcst, also below a node whose rewrite discards what happened there) *)
Fixpoint any_sub (bad : expr -> bool) (e : expr) : bool :=
  let anyb := fix anyb (es : list expr) : bool := match es with [] => false | a :: t => any_sub bad a || anyb t end in
  bad e ||
  match e with
  | EName _ | EConst _ | EType _ => false
  | ETuple es | EList es | ESet es => anyb es
  | EMeth _ _ args | ECall _ args => anyb args
  | EBool _ _ l r | EFloorDiv l r => any_sub bad l || any_sub bad r
  | ENot _ a | EJuxt _ a => any_sub bad a
  | ECmp _ l rest => any_sub bad l ||
                     (fix go (rs : list (cmpop * expr)) : bool :=
                        match rs with [] => false | (_, b) :: t => any_sub bad b || go t end) rest
  | EListComp elt _ it | EGen _ elt _ it => any_sub bad elt || any_sub bad it
  end.

(** * fix_empty_sequence_comparison.py
    [leave_Comparison] works on the original node (`del updated_node`) and returns the original node when it does not
    match, so nothing is ever rewritten below a comparison.  `x == []` -> `not x`; `x != []` -> `bool(x)` (text built from
    `x.value`: raises for nodes without that attribute), or the bare `x` when the comparison is the test of an if / assert. *)
Definition is_empty_seq (e : expr) : bool := match e with EList [] | ETuple [] => true | _ => false end.
Inductive es_action :=
| ES_none
| ES_not (p : bool) (lit x : expr)      (* (lit == x) -> not x *)
| ES_bool (lit x : expr)                (* (lit != x) -> bool(x) *)
| ES_bare (lit x : expr)                (* if lit != x: -> if x: *)
| ES_raises.                            (* `comp_var.value` raises AttributeError: the file is left unchanged *)
Definition empty_seq_action (in_test : bool) (e : expr) : es_action :=
  match e with
  | ECmp p l [(o, c)] =>
      if is_empty_seq l || is_empty_seq c then
        let x := if is_empty_seq l then c else l in
        let lt := if is_empty_seq l then l else c in
        match o with
        | Eq => ES_not p lt x
        | NotEq => if in_test then ES_bare lt x else if has_value_attr x then ES_bool lt x else ES_raises
        | _ => ES_none
        end
      else ES_none
  | _ => ES_none
  end.
Definition empty_seq_new (cfg : empty_seq_cfg) (a : es_action) (e : expr) : expr :=
  match a with
  | ES_not p _ x => ENot (es_parens cfg && p) x
  | ES_bool _ x => ECall BBool [x]
  | ES_bare _ x => x
  | ES_none | ES_raises => e
  end.
Definition empty_seq_f (cfg : empty_seq_cfg) (e : expr) : option expr :=
  match e with
  | ECmp _ _ _ => Some (empty_seq_new cfg (empty_seq_action false e) e)
  | _ => None
  end.
(** [in_test]: the expression is the test of an `if` (its parent is the If node) *)
Definition rw_empty_seq (cfg : empty_seq_cfg) (in_test : bool) (e : expr) : expr :=
  match e with
  | ECmp _ _ _ => empty_seq_new cfg (empty_seq_action in_test e) e
  | _ => td (empty_seq_f cfg) e
  end.
Definition empty_seq_raises (e : expr) : bool :=
  match empty_seq_action false e with ES_raises => true | _ => false end.
Definition empty_seq_crashes (in_test : bool) (e : expr) : bool :=
  (negb in_test && empty_seq_raises e) || existsb (any_sub empty_seq_raises) (children e).
Definition empty_seq_file (cfg : empty_seq_cfg) (in_test : bool) (e : expr) : expr :=
  if empty_seq_crashes in_test e then e else rw_empty_seq cfg in_test e.

(** * literal_or_new_object_identity.py: `x is <literal or new object>` -> `x == ...` on the ORIGINAL node
    (`original_node.with_deep_changes`); other comparisons return the updated node *)
Definition is_literal_or_new (e : expr) : bool :=
  match e with
  | EList _ | ETuple _ | ESet _ => true
  | EConst (CInt z) => (0 <=? z)%Z         (* a negative literal is a UnaryOperation *)
  | EConst (CStr _) => true
  | ECall BSet _ => true                   (* builtin set(...) / list / tuple / dict *)
  | _ => false
  end.
Definition identity_f (e : expr) : option expr :=
  match e with
  | ECmp p l [(o, c)] =>
      if is_literal_or_new l || is_literal_or_new c then
        match o with
        | Is => Some (ECmp p l [(Eq, c)])
        | IsNot => Some (ECmp p l [(NotEq, c)])
        | _ => None
        end
      else None
  | _ => None
  end.
Definition rw_identity : expr -> expr := td identity_f.

(** * str_concat_in_seq_literal.py: inside list / tuple / set displays an implicitly concatenated string becomes one element
    per literal ([EJuxt n "s"] stands for 2+n adjacent copies of the literal "s") *)
Definition flatten_element (a : expr) : list expr :=
  match a with
  | EJuxt n (EConst (CStr s)) => N.iter n (fun l => EConst (CStr s) :: l) [EConst (CStr s); EConst (CStr s)]
  | _ => [a]
  end.
Definition flatten_elements (es : list expr) : list expr := flat_map flatten_element es.
Definition str_concat_step (e : expr) : expr :=
  match e with
  | EList es => EList (flatten_elements es)
  | ETuple es => ETuple (flatten_elements es)
  | ESet es => ESet (flatten_elements es)
  | _ => e
  end.
Definition str_concat_f (e : expr) : option expr :=
  match e with
  | EList _ | ETuple _ | ESet _ => Some (str_concat_step e)      (* pinned: the elements of the ORIGINAL node *)
  | _ => None
  end.
Definition rw_str_concat (cfg : str_concat_cfg) : expr -> expr :=
  if sc_updated cfg then bu str_concat_step else td str_concat_f.
