from codemodder.codemods.libcst_transformer import NewArg
from core_codemods.api import Metadata, Reference, ReviewGuidance, SimpleCodemod


class RequestsVerify(SimpleCodemod):
    metadata = Metadata(
        name="requests-verify",
        summary="Verify SSL Certificates for Requests.",
        review_guidance=ReviewGuidance.MERGE_AFTER_CURSORY_REVIEW,
        references=[
            Reference(url="https://requests.readthedocs.io/en/latest/api/"),
            Reference(url="https://www.python-httpx.org/"),
            Reference(
                url="https://owasp.org/www-community/attacks/Manipulator-in-the-middle_attack"
            ),
        ],
    )
    change_description = (
        "Ensures requests using the `requests` or `httpx` library use `verify=True`."
    )
    detector_pattern = """
            rules:
              - pattern-either:
                - patterns:
                    - pattern: requests.$F(..., verify=False, ...)
                    - pattern-inside: |
                        import requests
                        ...
                - patterns:
                    - pattern: httpx.$F(..., verify=False, ...)
                    - pattern-inside: |
                        import httpx
                        ...
        """

    def on_result_found(self, original_node, updated_node):
        new_args = self.replace_args(
            original_node, [NewArg(name="verify", value="True", add_if_missing=False)]
        )
        return self.update_arg_target(updated_node, new_args)
