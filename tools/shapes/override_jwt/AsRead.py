# src/core_codemods/jwt_decode_verify.py at the commit the model was written against (shape reference; not executed)
class JwtDecodeVerifySASTTransformer:
    def filter_by_result(self, node) -> bool:
        """
        Special case result-matching for this rule because the SAST
        results returned have a start/end column for the verify keyword
        within the `decode` call, not for the entire `decode` call.
        """
        match node:
            case cst.Call():
                pos_to_match = self.node_position(node)
                return any(
                    self.match_location(pos_to_match, result)
                    for result in self.results or []
                )
        return False

    def match_location(self, pos, result):
        return any(
            same_line(pos, location) and fuzzy_column_match(pos, location)
            for location in result.locations
        )

