from dataclasses import dataclass, field
from tempfile import TemporaryFile
from xml.sax import handler
from xml.sax.handler import LexicalHandler
from xml.sax.saxutils import XMLGenerator
from xml.sax.xmlreader import AttributesImpl, Locator

from defusedxml.sax import make_parser

from codemodder.codemods.base_transformer import BaseTransformerPipeline
from codemodder.codetf import Change, ChangeSet
from codemodder.context import CodemodExecutionContext
from codemodder.diff import create_diff
from codemodder.file_context import FileContext
from codemodder.logging import logger
from codemodder.result import Result


class XMLTransformer(XMLGenerator, LexicalHandler):
    """
    Given a XML file, generates the same file but formatted.
    """

    change_description = ""

    def __init__(
        self,
        out,
        file_context: FileContext,
        encoding: str = "utf-8",
        short_empty_elements: bool = False,
        results: list[Result] | None = None,
        line_only_matching=False,
    ) -> None:
        self.file_context = file_context
        self.results = results
        self.changes: list[Change] = []
        self._my_locator = Locator()
        self.line_only_matching = line_only_matching
        super().__init__(out, encoding, short_empty_elements)

    def startElement(self, name, attrs):
        super().startElement(name, attrs)

    def endElement(self, name):
        super().endElement(name)

    def characters(self, content):
        super().characters(content)

    def skippedEntity(self, name: str) -> None:
        super().skippedEntity(name)

    def comment(self, content: str):
        self._write(f"<!--{content}-->\n")  # type: ignore

    def startCDATA(self):
        self._write("<![CDATA[")  # type: ignore

    def endCDATA(self):
        self._write("]]>")  # type: ignore

    def startDTD(self, name: str, public_id: str | None, system_id: str | None):
        self._write(f'<!DOCTYPE {name} PUBLIC "{public_id}" "{system_id}">\n')  # type: ignore
        return super().startDTD(name, public_id, system_id)

    def endDTD(self) -> object:
        return super().endDTD()

    def setDocumentLocator(self, locator: Locator) -> None:
        self._my_locator = locator

    def event_match_result(self) -> bool:
        """
        Returns True if the current event matches any result.
        """
        line = self._my_locator.getLineNumber()
        column = self._my_locator.getColumnNumber()
        return self.match_result(line, column)

    def match_result(self, line, column) -> bool:
        if self.results is None:
            return True
        for result in self.results or []:
            for location in result.locations:
                # No two elements can have the same start but different ends.
                # It suffices to only match the start.
                if (self.line_only_matching and location.start.line == line) or (
                    location.start.line == line and location.start.column - 1 == column
                ):
                    return True
        return False

    def add_change(self, line):
        self.changes.append(
            Change(
                lineNumber=line,
                description=self.change_description or None,
                findings=self.file_context.get_findings_for_location(line),
            )
        )


class ElementAttributeXMLTransformer(XMLTransformer):
    """
    Changes the element and its attributes to the values provided in a given dict. For any attribute missing in the dict will stay the same as the original.
    """

    def __init__(
        self,
        out,
        file_context: FileContext,
        name_attributes_map: dict[str, dict[str, str]],
        encoding: str = "utf-8",
        short_empty_elements: bool = False,
        results: list[Result] | None = None,
        line_only_matching=False,
    ) -> None:
        self.name_attributes_map = name_attributes_map
        super().__init__(
            out,
            file_context,
            encoding,
            short_empty_elements,
            results,
            line_only_matching,
        )

    def startElement(self, name, attrs):
        new_attrs: AttributesImpl = attrs
        if self.event_match_result() and name in self.name_attributes_map:
            new_attrs = AttributesImpl(attrs._attrs | self.name_attributes_map[name])
            self.add_change(self._my_locator.getLineNumber())
        super().startElement(name, new_attrs)


@dataclass
class NewElement:
    name: str
    parent_name: str
    content: str = ""
    attributes: dict[str, str] = field(default_factory=dict)


class NewElementXMLTransformer(XMLTransformer):
    """
    Adds new elements to the XML file at specified locations.
    """

    def __init__(
        self,
        out,
        file_context: FileContext,
        encoding: str = "utf-8",
        short_empty_elements: bool = False,
        results: list[Result] | None = None,
        new_elements: list[NewElement] | None = None,
    ) -> None:
        super().__init__(out, file_context, encoding, short_empty_elements, results)
        self.new_elements = new_elements or []

    def startElement(self, name, attrs):
        super().startElement(name, attrs)

    def endElement(self, name):
        for new_element in self.new_elements:
            if new_element.parent_name == name:
                self.add_new_element(new_element)
                self.add_change(self._my_locator.getLineNumber())
        super().endElement(name)

    def add_new_element(self, new_element: NewElement):
        attrs = AttributesImpl(new_element.attributes or {})
        super().startElement(new_element.name, attrs)
        if isinstance(new_element.content, NewElement):
            self.add_new_element(new_element.content)
        else:
            super().characters(new_element.content)
        super().endElement(new_element.name)


class XMLTransformerPipeline(BaseTransformerPipeline):

    def __init__(self, xml_transformer: type[XMLTransformer]):
        super().__init__()
        self.xml_transformer = xml_transformer

    def apply(
        self,
        context: CodemodExecutionContext,
        file_context: FileContext,
        results: list[Result] | None,
    ) -> ChangeSet | None:
        with TemporaryFile("w+") as output_file:
            # this will fail fast for files that are not XML
            try:
                transformer_instance = self.xml_transformer(
                    out=output_file,
                    file_context=file_context,
                    results=results,
                )
                parser = make_parser()
                parser.setContentHandler(transformer_instance)
                parser.setProperty(
                    handler.property_lexical_handler, transformer_instance
                )
                parser.parse(file_path := file_context.file_path)
                changes = transformer_instance.changes
                output_file.seek(0)
            except Exception:
                file_context.add_failure(
                    file_path, reason := "Failed to parse XML file"
                )
                logger.exception("%s %s", reason, file_path)
                return None

            if not changes:
                return None

            new_lines = output_file.readlines()
            # TODO there's a failure potential here for very large files
            try:
                original_lines = (
                    file_context.file_path.read_bytes()
                    .decode("utf-8")
                    .splitlines(keepends=True)
                )
            except Exception:
                # e.g. a well-formed document in a non-UTF-8 encoding
                file_context.add_failure(
                    file_path, reason := "Failed to read XML file as UTF-8"
                )
                logger.exception("%s %s", reason, file_path)
                return None
            if not (
                diff := create_diff(
                    original_lines,
                    new_lines,
                )
            ):
                logger.debug("No diff produced for %s", file_path)
                return None

            if not context.dry_run:
                file_context.file_path.write_bytes("".join(new_lines).encode("utf-8"))

            return ChangeSet(
                path=str(file_path.relative_to(context.directory)),
                diff=diff,
                changes=changes,
            )
