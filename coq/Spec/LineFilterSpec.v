(** Reference for C13: which single-line sites the user's line lists permit; which lines a pattern list denotes. *)
From CM Require Export Model.LineFilter Spec.GlobSpec.

(** The property text: "a construct on an excluded line or on a line not included is not rewritten ... while permitted
    lines are still fixed", for E and I "alone or combined".  A construct on line n may be rewritten iff n is not
    excluded and, when lines of the file are included, n is one of them.  (This is NOT what the code as written does
    when both lists are given: there a non-empty exclusion list shadows the inclusion list.) *)
Definition Permitted (line_exclude line_include : list Z) (n : Z) : Prop :=
  ~ In n line_exclude /\ (line_include = [] \/ In n line_include).
Definition permittedb (line_exclude line_include : list Z) (n : Z) : bool :=
  negb (memZ n line_exclude) && match line_include with _ :: _ => memZ n line_include | [] => true end.
(** what the code as written computes instead *)
Definition shadow_permittedb (line_exclude line_include : list Z) (n : Z) : bool :=
  match line_exclude with
  | _ :: _ => negb (memZ n line_exclude)
  | [] => match line_include with _ :: _ => memZ n line_include | [] => true end
  end.

Definition single_line (p : pos) (n : Z) : Prop := start_line p = n /\ end_line p = n.

(** The lines the property says a pattern list denotes for a file: `g:l` with g matching the target-relative
    path (like any other pattern) or the path as passed (the absolute spelling). *)
Definition Denotes (patterns : list str) (as_passed rel : str) (n : Z) : Prop :=
  exists pat g l, In pat patterns /\ split_on 58 pat = [g; l] /\ parse_int l = Some n /\
                  (GlobMatches g as_passed \/ GlobMatches g rel).
