from pathlib import Path
from typing import Optional

from codemodder.codetf import ChangeSet
from codemodder.dependency import Dependency
from codemodder.dependency_management.pyproject_writer import PyprojectWriter
from codemodder.dependency_management.requirements_txt_writer import (
    RequirementsTxtWriter,
)
from codemodder.dependency_management.setup_py_writer import SetupPyWriter
from codemodder.dependency_management.setupcfg_writer import SetupCfgWriter
from codemodder.project_analysis.file_parsers.package_store import (
    FileType,
    PackageStore,
)


class DependencyManager:
    dependencies_store: PackageStore
    parent_directory: Path

    def __init__(self, dependencies_store: PackageStore, parent_directory: Path):
        self.dependencies_store = dependencies_store
        self.parent_directory = parent_directory

    def write(
        self, dependencies: list[Dependency], dry_run: bool = False
    ) -> Optional[ChangeSet]:
        """
        Write `dependencies` to the appropriate location in the project.
        """
        match self.dependencies_store.type:
            case FileType.REQ_TXT:
                return RequirementsTxtWriter(
                    self.dependencies_store, self.parent_directory
                ).write(dependencies, dry_run)
            case FileType.TOML:
                return PyprojectWriter(
                    self.dependencies_store, self.parent_directory
                ).write(dependencies, dry_run)
            case FileType.SETUP_PY:
                return SetupPyWriter(
                    self.dependencies_store, self.parent_directory
                ).write(dependencies, dry_run)
            case FileType.SETUP_CFG:
                return SetupCfgWriter(
                    self.dependencies_store, self.parent_directory
                ).write(dependencies, dry_run)
        return None
