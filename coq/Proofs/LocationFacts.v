From CM Require Import Base.Dict Proofs.DictFacts Model.Location Spec.LocationSpec.
From Coq Require Import Lia ZifyBool.
Local Open Scope Z_scope.

(** * Elementary characterisations *)
Lemma col_in_iff tol c pc : col_in tol c pc = true <-> exists d, In d tol /\ pc = c + d.
Proof.
  unfold col_in. rewrite existsb_exists. split; intros [d [Hin H]]; exists d; split; auto; lia.
Qed.

Lemma same_line_iff p l :
  same_line p l = true <-> pline (sstart p) = pline (lstart l) /\ pline (send p) = pline (lend l).
Proof. unfold same_line. lia. Qed.

Lemma base_match_loc_iff T p l : base_match_loc T p l = true <-> points_at (tol_s T) (tol_e T) p l.
Proof.
  unfold base_match_loc, points_at. rewrite !andb_true_iff, same_line_iff, !col_in_iff. tauto.
Qed.

Lemma dd_match_loc_iff p l : dd_match_loc p l = true <-> on_lines_of p l.
Proof. unfold dd_match_loc, on_lines_of. lia. Qed.

Lemma match_loc_iff T c k p l : match_loc T c k p l = true <-> reports T c k p l.
Proof.
  unfold match_loc, reports. destruct c; try apply base_match_loc_iff. apply dd_match_loc_iff.
Qed.

Lemma match_location_iff T k p r :
  match_location T k p r = true <-> exists l, In l (rlocs r) /\ reports T (rcls r) k p l.
Proof.
  unfold match_location. rewrite existsb_exists.
  split; intros [l [Hin H]]; exists l; split; auto; now apply match_loc_iff.
Qed.

Lemma nonempty_filter_iff {A} (f : A -> bool) l : nonempty (List.filter f l) = true <-> exists x, In x l /\ f x = true.
Proof.
  split.
  - destruct (List.filter f l) as [|x r] eqn:E; [discriminate|]. intros _.
    assert (Hin : In x (List.filter f l)) by (rewrite E; now left).
    apply filter_In in Hin. now exists x.
  - intros [x [Hin Hf]]. assert (H : In x (List.filter f l)) by (apply filter_In; auto).
    destruct (List.filter f l); [contradiction|reflexivity].
Qed.

Lemma nonempty_true_iff {A} (l : list A) : nonempty l = true <-> l <> [].
Proof. destruct l; simpl; split; congruence. Qed.

(** * C06_select_iff: the default selection *)
Lemma filter_by_result_default_iff T rs n :
  filter_by_result T FDefault (Some rs) n = true <->
  exists r l, In r rs /\ In l (rlocs r) /\ reports T (rcls r) (nkind n) (nspan n) l.
Proof.
  unfold filter_by_result, results_for_node. simpl. rewrite nonempty_filter_iff. split.
  - intros [r [Hin H]]. apply match_location_iff in H. destruct H as [l [Hl H]]. now exists r, l.
  - intros [r [l [Hin [Hl H]]]]. exists r. split; auto. apply match_location_iff. now exists l.
Qed.

Lemma select_iff T rs excl inc n :
  node_is_selected T FDefault (Some rs) excl inc n = true <->
  (exists r l, In r rs /\ In l (rlocs r) /\ reports T (rcls r) (nkind n) (nspan n) l) /\
  line_filter T excl inc (nspan n) = true.
Proof. unfold node_is_selected. rewrite andb_true_iff, filter_by_result_default_iff. tauto. Qed.

(** a codemod without detector results (results is None) selects by line filter only *)
Lemma select_no_detector T excl inc n :
  node_is_selected T FDefault None excl inc n = line_filter T excl inc (nspan n).
Proof. reflexivity. Qed.

(** per-codemod overrides *)
Lemma select_fuzzy_iff T results excl inc n :
  node_is_selected T FFuzzyCall results excl inc n = true <->
  nkind n = KCall /\
  (exists r l, In r (or_nil results) /\ In l (rlocs r) /\
     pline (sstart (nspan n)) = pline (lstart l) /\ pline (send (nspan n)) = pline (lend l) /\
     pcol (sstart (nspan n)) <= pcol (lstart l) <= pcol (send (nspan n)) + 1 /\
     pcol (sstart (nspan n)) <= pcol (lend l) <= pcol (send (nspan n)) + 1) /\
  line_filter T excl inc (nspan n) = true.
Proof.
  unfold node_is_selected, filter_by_result. rewrite andb_true_iff.
  destruct (nkind n); try (split; [intros [H _]; discriminate | intros [H _]; discriminate]).
  rewrite existsb_exists. split.
  - intros [[r [Hin H]] Hl]. split; [reflexivity|]. split; [|exact Hl].
    unfold fuzzy_match in H. apply existsb_exists in H. destruct H as [l [Hil H]].
    exists r, l. apply andb_true_iff in H. destruct H as [H1 H2]. apply same_line_iff in H1.
    unfold fuzzy_column_match in H2. repeat split; auto; lia.
  - intros [_ [[r [l [Hin [Hil H]]]] Hl]]. split; [|exact Hl]. exists r. split; auto.
    unfold fuzzy_match. apply existsb_exists. exists l. split; auto.
    apply andb_true_iff. split; [apply same_line_iff; tauto|]. unfold fuzzy_column_match. lia.
Qed.

Lemma select_mktemp_iff T rs excl inc n :
  node_is_selected T FSameLineStmt (Some rs) excl inc n = true <->
  nkind n = KStmtLine /\
  (exists r l, In r rs /\ In l (rlocs r) /\
     pline (sstart (nspan n)) = pline (lstart l) /\ pline (send (nspan n)) = pline (lend l)) /\
  line_filter T excl inc (nspan n) = true.
Proof.
  unfold node_is_selected, filter_by_result. rewrite andb_true_iff.
  destruct (nkind n); try (split; [intros [H _]; discriminate | intros [H _]; discriminate]).
  simpl. rewrite existsb_exists. split.
  - intros [[r [Hin H]] Hl]. split; [reflexivity|]. split; [|exact Hl].
    unfold line_only_match in H. apply existsb_exists in H. destruct H as [l [Hil H]].
    exists r, l. apply same_line_iff in H. tauto.
  - intros [_ [[r [l [Hin [Hil H]]]] Hl]]. split; [|exact Hl]. exists r. split; auto.
    unfold line_only_match. apply existsb_exists. exists l. split; auto. now apply same_line_iff.
Qed.

(** * Uniqueness under the span discipline *)
Lemma tol_close_spec t a b : tol_close t = true -> In a t -> In b t -> Z.abs (a - b) <= 1.
Proof.
  unfold tol_close. rewrite forallb_forall. intros H Ha Hb.
  specialize (H a Ha). rewrite forallb_forall in H. specialize (H b Hb). lia.
Qed.

Lemma points_at_not_separated ts te p q l :
  tol_close ts = true -> tol_close te = true ->
  points_at ts te p l -> points_at ts te q l -> separated p q = false.
Proof.
  intros Hs He [P1 [P2 [[d1 [I1 E1]] [d2 [I2 E2]]]]] [Q1 [Q2 [[e1 [J1 F1]] [e2 [J2 F2]]]]].
  pose proof (tol_close_spec _ _ _ Hs I1 J1). pose proof (tol_close_spec _ _ _ He I2 J2).
  unfold separated. lia.
Qed.

Lemma pairwise_spec {A} (f : A -> A -> bool) (Hsym : forall x y, f x y = f y x) l :
  pairwise f l = true -> forall x y, In x l -> In y l -> x = y \/ f x y = true.
Proof.
  induction l as [|a r IH]; simpl; [contradiction|].
  rewrite andb_true_iff, forallb_forall. intros [Ha Hr] x y [->|Hx] [->|Hy]; auto.
  - right. rewrite Hsym. auto.
Qed.

Lemma pairwise_irrefl_nodup {A} (f : A -> A -> bool) (Hirr : forall x, f x x = false) l :
  pairwise f l = true -> List.NoDup l.
Proof.
  induction l as [|a r IH]; simpl; [constructor|].
  rewrite andb_true_iff, forallb_forall. intros [Ha Hr]. constructor; auto.
  intros Hin. specialize (Ha a Hin). rewrite Hirr in Ha. discriminate.
Qed.

Lemma separated_sym p q : separated p q = separated q p.
Proof. unfold separated. lia. Qed.
Lemma separated_irrefl p : separated p p = false.
Proof. unfold separated. lia. Qed.
Lemma lines_apart_sym p q : lines_apart p q = lines_apart q p.
Proof. unfold lines_apart. lia. Qed.

Lemma unique_site T c cands :
  unique_ok T = true -> c <> RDefectDojo -> span_discipline T c cands = true ->
  forall n m l, In n cands -> In m cands ->
    match_loc T c (nkind n) (nspan n) l = true -> match_loc T c (nkind m) (nspan m) l = true -> n = m.
Proof.
  unfold unique_ok. rewrite andb_true_iff. intros [Hs He] Hc Hd n m l Hn Hm Mn Mm.
  destruct (pairwise_spec _ (fun x y => separated_sym _ _) _ Hd n m Hn Hm) as [|Hsep]; auto.
  exfalso.
  assert (Hn' : points_at (tol_s T) (tol_e T) (eff_span T c (nkind n) (nspan n)) l)
    by (apply base_match_loc_iff; destruct c; try exact Mn; congruence).
  assert (Hm' : points_at (tol_s T) (tol_e T) (eff_span T c (nkind m) (nspan m)) l)
    by (apply base_match_loc_iff; destruct c; try exact Mm; congruence).
  pose proof (points_at_not_separated _ _ _ _ _ Hs He Hn' Hm'). congruence.
Qed.

Lemma unique_site_dd T cands :
  line_discipline cands = true ->
  forall n m l, In n cands -> In m cands ->
    match_loc T RDefectDojo (nkind n) (nspan n) l = true -> match_loc T RDefectDojo (nkind m) (nspan m) l = true -> n = m.
Proof.
  intros Hd n m l Hn Hm Mn Mm.
  destruct (pairwise_spec _ (fun x y => lines_apart_sym _ _) _ Hd n m Hn Hm) as [|Hsep]; auto.
  exfalso. simpl in Mn, Mm. unfold dd_match_loc in *. unfold lines_apart in Hsep. lia.
Qed.

(** the hypothesis under which a location determines its node, per class *)
Definition discipline (T : ltab) (c : rclass) (cands : list node) : bool :=
  match c with RDefectDojo => line_discipline cands | _ => unique_ok T && span_discipline T c cands end.

Lemma unique_site_any T c cands :
  discipline T c cands = true ->
  forall n m l, In n cands -> In m cands ->
    match_loc T c (nkind n) (nspan n) l = true -> match_loc T c (nkind m) (nspan m) l = true -> n = m.
Proof.
  intros Hd. destruct c; simpl in Hd.
  - apply andb_true_iff in Hd. destruct Hd. apply unique_site; auto. discriminate.
  - apply andb_true_iff in Hd. destruct Hd. apply unique_site; auto. discriminate.
  - now apply unique_site_dd.
Qed.

(** the hypothesis for a transformer with filter override o: [cands] are all Call/Assign/ClassDef nodes of the program
    plus the nodes the transformer tests, [tested] the latter alone *)
Definition discipline_for (T : ltab) (o : filter_override) (c : rclass) (cands tested : list node) : bool :=
  match o with
  | FDefault => match c with RDefectDojo => line_discipline tested | _ => discipline T c cands end
  | FFuzzyCall => fuzzy_discipline tested
  | FSameLineStmt => line_discipline tested
  end.

Lemma fuzzy_apart_sym p q : fuzzy_apart p q = fuzzy_apart q p.
Proof. unfold fuzzy_apart. lia. Qed.

Lemma unique_site_fuzzy cands :
  fuzzy_discipline cands = true ->
  forall n m l, In n cands -> In m cands ->
    same_line (nspan n) l && fuzzy_column_match (nspan n) l = true ->
    same_line (nspan m) l && fuzzy_column_match (nspan m) l = true -> n = m.
Proof.
  intros Hd n m l Hn Hm Mn Mm.
  destruct (pairwise_spec _ (fun x y => fuzzy_apart_sym _ _) _ Hd n m Hn Hm) as [|Hsep]; auto.
  exfalso. unfold same_line, fuzzy_column_match in *. unfold fuzzy_apart in Hsep. lia.
Qed.

Lemma unique_site_stmt_line cands :
  line_discipline cands = true ->
  forall n m l, In n cands -> In m cands -> pline (sstart (nspan n)) <= pline (send (nspan n)) ->
    same_line (nspan n) l = true -> same_line (nspan m) l = true -> n = m.
Proof.
  intros Hd n m l Hn Hm Hwf Mn Mm.
  destruct (pairwise_spec _ (fun x y => lines_apart_sym _ _) _ Hd n m Hn Hm) as [|Hsep]; auto.
  exfalso. unfold same_line in *. unfold lines_apart in Hsep. lia.
Qed.

(** * Subset exactness: results reporting exactly the sites of S select exactly S *)
Lemma Forall2_in_left {A B} (P : A -> B -> Prop) l l' : Forall2 P l l' -> forall x, In x l -> exists y, In y l' /\ P x y.
Proof.
  induction 1 as [|a b l l' Hab HF IH]; simpl; [contradiction|].
  intros x [<-|Hin]; [exists b; auto|]. destruct (IH x Hin) as [y [Hy Hp]]. exists y; auto.
Qed.
Lemma Forall2_in_right {A B} (P : A -> B -> Prop) l l' : Forall2 P l l' -> forall y, In y l' -> exists x, In x l /\ P x y.
Proof.
  induction 1 as [|a b l l' Hab HF IH]; simpl; [contradiction|].
  intros y [<-|Hin]; [exists a; auto|]. destruct (IH y Hin) as [x [Hx Hp]]. exists x; auto.
Qed.

Lemma subset_exact T c cands S rs excl inc :
  discipline T c cands = true ->
  Forall2 (site_report T c) S rs -> incl S cands ->
  forall n, In n cands -> line_filter T excl inc (nspan n) = true ->
    (node_is_selected T FDefault (Some rs) excl inc n = true <-> In n S).
Proof.
  intros Hd HF Hincl n Hn Hlf. rewrite select_iff. split.
  - intros [[r [l [Hr [Hl Hrep]]]] _].
    destruct (Forall2_in_right _ _ _ HF r Hr) as [m [Hm [Hc [l' [Hlocs Hmatch]]]]].
    rewrite Hlocs in Hl. destruct Hl as [<-|[]].
    rewrite Hc in Hrep. apply match_loc_iff in Hrep.
    assert (n = m) by (eapply unique_site_any; eauto). now subst.
  - intros HS. split; [|exact Hlf].
    destruct (Forall2_in_left _ _ _ HF n HS) as [r [Hr [Hc [l [Hlocs Hmatch]]]]].
    exists r, l. rewrite Hlocs, Hc. split; auto. split; [now left|]. now apply match_loc_iff.
Qed.

(** * When the tolerance sets are not tight the discipline does not determine the node (negative branch) *)
Lemma forallb_false_exists {A} (f : A -> bool) l : forallb f l = false -> exists x, In x l /\ f x = false.
Proof.
  induction l as [|a r IH]; simpl; [discriminate|].
  destruct (f a) eqn:E; simpl.
  - intros H. destruct (IH H) as [x [Hx Hf]]. exists x; auto.
  - intros _. exists a; auto.
Qed.

Lemma tol_far t : tol_close t = false -> exists a b, In a t /\ In b t /\ 2 <= Z.abs (a - b).
Proof.
  unfold tol_close. intros H. apply forallb_false_exists in H. destruct H as [a [Ha H]].
  apply forallb_false_exists in H. destruct H as [b [Hb H]]. exists a, b. repeat split; auto. lia.
Qed.

Lemma col_in_intro tol c d : In d tol -> col_in tol c (c + d) = true.
Proof. intros H. apply col_in_iff. now exists d. Qed.

Lemma not_unique_when_loose T :
  unique_ok T = false -> nonempty (tol_s T) = true -> nonempty (tol_e T) = true ->
  exists p q l, separated p q = true /\ base_match_loc T p l = true /\ base_match_loc T q l = true.
Proof.
  unfold unique_ok. intros H Hs He. apply andb_false_iff in H.
  destruct (tol_s T) as [|s0 ts'] eqn:Es; [discriminate|]. destruct (tol_e T) as [|e0 te'] eqn:Ee; [discriminate|].
  destruct H as [H|H]; apply tol_far in H; destruct H as [a [b [Ha [Hb Hab]]]].
  - exists (mkspan (mkpos 1 (10 + a)) (mkpos 1 (20 + e0))), (mkspan (mkpos 1 (10 + b)) (mkpos 1 (20 + e0))),
      (mkloc [] (mkpos 1 10) (mkpos 1 20)).
    unfold base_match_loc, same_line. rewrite Es, Ee. cbn [sstart send pline pcol lstart lend].
    rewrite !(col_in_intro (s0 :: ts')) by assumption. rewrite !(col_in_intro (e0 :: te')) by (now left).
    split; [unfold separated; cbn [sstart send pline pcol]; lia|]. split; reflexivity.
  - exists (mkspan (mkpos 1 (10 + s0)) (mkpos 1 (20 + a))), (mkspan (mkpos 1 (10 + s0)) (mkpos 1 (20 + b))),
      (mkloc [] (mkpos 1 10) (mkpos 1 20)).
    unfold base_match_loc, same_line. rewrite Es, Ee. cbn [sstart send pline pcol lstart lend].
    rewrite !(col_in_intro (e0 :: te')) by assumption. rewrite !(col_in_intro (s0 :: ts')) by (now left).
    split; [unfold separated; cbn [sstart send pline pcol]; lia|]. split; reflexivity.
Qed.

(** * The per-file result list: only results of the requested rules located in that file *)
Local Notation sget := (dget str_eqb).

Lemma getl_getd_add_one r R f k p x :
  In x (getl p (getd k (add_one r R f))) ->
  In x (getl p (getd k R)) \/ (x = r /\ k = rrule_id r /\ p = f).
Proof.
  unfold add_one. intros H.
  destruct (str_eqb_spec k (rrule_id r)) as [->|Hk].
  - unfold getd at 1 in H. rewrite (dget_dset_same str_eqb str_eqb_spec) in H.
    destruct (str_eqb_spec p f) as [->|Hp].
    + unfold getl at 1 in H. rewrite (dget_dset_same str_eqb str_eqb_spec) in H.
      apply in_app_or in H. destruct H as [H|[<-|[]]]; auto.
    + unfold getl at 1 in H. rewrite (dget_dset_other str_eqb str_eqb_spec) in H by assumption. now left.
  - unfold getd at 1 in H. rewrite (dget_dset_other str_eqb str_eqb_spec) in H by assumption. now left.
Qed.

Lemma getl_getd_add_one_keeps r R f k p x :
  In x (getl p (getd k R)) -> In x (getl p (getd k (add_one r R f))).
Proof.
  unfold add_one. intros H.
  destruct (str_eqb_spec k (rrule_id r)) as [->|Hk].
  - unfold getd at 1. rewrite (dget_dset_same str_eqb str_eqb_spec).
    destruct (str_eqb_spec p f) as [->|Hp].
    + unfold getl at 1. rewrite (dget_dset_same str_eqb str_eqb_spec). apply in_or_app. now left.
    + unfold getl at 1. rewrite (dget_dset_other str_eqb str_eqb_spec) by assumption. exact H.
  - unfold getd at 1. rewrite (dget_dset_other str_eqb str_eqb_spec) by assumption. exact H.
Qed.

Lemma getl_getd_add_one_new r R f : In r (getl f (getd (rrule_id r) (add_one r R f))).
Proof.
  unfold add_one. unfold getd at 1. rewrite (dget_dset_same str_eqb str_eqb_spec).
  unfold getl at 1. rewrite (dget_dset_same str_eqb str_eqb_spec). apply in_or_app. right. now left.
Qed.

Lemma lookup_fold_add_one r fs : forall R k p x,
  In x (getl p (getd k (fold_left (add_one r) fs R))) ->
  In x (getl p (getd k R)) \/ (x = r /\ k = rrule_id r /\ In p fs).
Proof.
  induction fs as [|f fs IH]; simpl; intros R k p x H; [now left|].
  apply IH in H. destruct H as [H|[-> [-> Hin]]]; [|right; auto].
  apply getl_getd_add_one in H. destruct H as [H|[-> [-> ->]]]; auto.
Qed.

Lemma lookup_fold_add_one_keeps r fs : forall R k p x,
  In x (getl p (getd k R)) -> In x (getl p (getd k (fold_left (add_one r) fs R))).
Proof.
  induction fs as [|f fs IH]; simpl; intros R k p x H; [exact H|].
  apply IH. now apply getl_getd_add_one_keeps.
Qed.

Lemma lookup_fold_add_one_new r fs : forall R p,
  In p fs -> In r (getl p (getd (rrule_id r) (fold_left (add_one r) fs R))).
Proof.
  induction fs as [|f fs IH]; simpl; intros R p; [contradiction|].
  intros [->|Hin]; [|now apply IH].
  apply lookup_fold_add_one_keeps. apply getl_getd_add_one_new.
Qed.

Lemma lookup_of_results_from l : forall R k p x,
  In x (results_for_rule_and_file (fold_left add_result l R) k p) ->
  In x (results_for_rule_and_file R k p) \/ (In x l /\ rrule_id x = k /\ In p (map lfile (rlocs x))).
Proof.
  unfold results_for_rule_and_file.
  induction l as [|r l IH]; simpl; intros R k p x H; [now left|].
  apply IH in H. destruct H as [H|[Hin [Hk Hp]]]; [|right; auto].
  unfold add_result in H. apply lookup_fold_add_one in H.
  destruct H as [H|[-> [-> Hp]]]; auto.
Qed.

Lemma lookup_of_results_keeps l : forall R k p x,
  In x (results_for_rule_and_file R k p) -> In x (results_for_rule_and_file (fold_left add_result l R) k p).
Proof.
  unfold results_for_rule_and_file.
  induction l as [|r l IH]; simpl; intros R k p x H; [exact H|].
  apply IH. unfold add_result. now apply lookup_fold_add_one_keeps.
Qed.

(** the per-(rule,file) list of a result set holds exactly the results of that rule with a location in that file *)
Lemma lookup_of_results l k p x :
  In x (results_for_rule_and_file (of_results l) k p) <->
  In x l /\ rrule_id x = k /\ In p (map lfile (rlocs x)).
Proof.
  unfold of_results. split.
  - intros H. apply lookup_of_results_from in H. destruct H as [H|H]; [|exact H].
    unfold results_for_rule_and_file, getd, getl in H. simpl in H. contradiction.
  - intros [Hin [<- Hp]]. revert Hin. generalize (@nil (str * fdict)) as R.
    induction l as [|r l IH]; simpl; intros R; [contradiction|].
    intros [->|Hin]; [|now apply IH].
    apply lookup_of_results_keeps. unfold results_for_rule_and_file, add_result.
    now apply lookup_fold_add_one_new.
Qed.

Lemma findings_for_rule_In R rules file x :
  In x (or_nil (findings_for_rule (Some R) rules file)) <->
  exists k, In k rules /\ In x (results_for_rule_and_file R k file).
Proof. simpl. rewrite in_flat_map. tauto. Qed.

Lemma flat_map_nil {A B} (f : A -> list B) l : (forall x, In x l -> f x = []) -> flat_map f l = [].
Proof. induction l as [|a r IH]; simpl; intros H; [reflexivity|]. rewrite (H a), IH; auto. Qed.

(** * C06_no_findings_short_circuit *)
Lemma short_circuit_iff R rules file :
  process_file R rules file = ShortCircuit <->
  exists R', R = Some R' /\ forall k, In k rules -> results_for_rule_and_file R' k file = [].
Proof.
  unfold process_file. destruct R as [R'|]; simpl.
  - destruct (flat_map _ rules) as [|x r] eqn:E; simpl.
    + split; [intros _|reflexivity]. exists R'. split; auto. intros k Hk.
      destruct (results_for_rule_and_file R' k file) as [|y t] eqn:Ey; [reflexivity|].
      assert (In y (flat_map (fun rule => results_for_rule_and_file R' rule file) rules))
        by (apply in_flat_map; exists k; rewrite Ey; simpl; auto).
      rewrite E in H. contradiction.
    + split; [discriminate|]. intros [R'' [HR H]]. injection HR as <-.
      rewrite flat_map_nil in E by assumption. discriminate.
  - split; [discriminate|]. intros [R' [H _]]. discriminate.
Qed.

Lemma run_file_short_circuit T a o R rules file excl inc nodes :
  process_file R rules file = ShortCircuit -> run_file T a o R rules file excl inc nodes = ([], []).
Proof. unfold run_file. now intros ->. Qed.

Lemma files_to_analyze_In R rules files f :
  In f (files_to_analyze R rules files) ->
  In f files /\ exists k, In k rules /\ results_for_rule_and_file R k f <> [].
Proof.
  unfold files_to_analyze. destruct R as [|kv R']; [contradiction|].
  rewrite filter_In, existsb_exists. intros [Hf [k [Hk H]]]. split; auto. exists k. split; auto.
  now apply nonempty_true_iff.
Qed.

(** * Findings attached to a change entry *)
Lemma in_line_range_iff line l : in_line_range line l = true <-> pline (lstart l) <= line <= pline (lend l).
Proof. unfold in_line_range. lia. Qed.

Lemma covers_iff r line : existsb (in_line_range line) (rlocs r) = true <-> covers r line.
Proof.
  unfold covers. rewrite existsb_exists. split; intros [l [Hin H]]; exists l; split; auto; now apply in_line_range_iff.
Qed.

Lemma findings_by_line results line f :
  In f (get_findings_for_location ByLineRange results line) <->
  exists r, In r (or_nil results) /\ rfinding r = Some f /\ covers r line.
Proof.
  simpl. rewrite in_flat_map. split.
  - intros [r [Hin H]]. exists r. split; auto.
    destruct (existsb (in_line_range line) (rlocs r)) eqn:E; [|contradiction].
    apply covers_iff in E. destruct (rfinding r); [|contradiction]. destruct H as [<-|[]]. auto.
  - intros [r [Hin [Hf Hc]]]. exists r. split; auto. apply covers_iff in Hc. rewrite Hc, Hf. now left.
Qed.

(** as a list: the findings of the covering results, in result order *)
Lemma findings_by_line_list results line :
  get_findings_for_location ByLineRange results line =
  flat_map finding_list (List.filter (fun r => existsb (in_line_range line) (rlocs r)) (or_nil results)).
Proof.
  simpl. induction (or_nil results) as [|r l IH]; simpl; [reflexivity|].
  destruct (existsb (in_line_range line) (rlocs r)); simpl; now rewrite IH.
Qed.

(** * A change entry carries exactly the finding of its own site when no other reported site shares its lines *)
Lemma eff_span_lines T c k p :
  pline (sstart (eff_span T c k p)) = pline (sstart p) /\ pline (send (eff_span T c k p)) = pline (send p).
Proof. unfold eff_span. destruct c, k; simpl; auto. Qed.

Lemma site_report_lines T c m r :
  c <> RDefectDojo -> site_report T c m r ->
  exists l, rlocs r = [l] /\ pline (lstart l) = pline (sstart (nspan m)) /\ pline (lend l) = pline (send (nspan m)).
Proof.
  intros Hc [_ [l [Hl H]]]. exists l. split; auto.
  assert (Hp : points_at (tol_s T) (tol_e T) (eff_span T c (nkind m) (nspan m)) l)
    by (apply base_match_loc_iff; destruct c; try exact H; congruence).
  destruct Hp as [P1 [P2 _]]. destruct (eff_span_lines T c (nkind m) (nspan m)) as [E1 E2]. lia.
Qed.

Lemma others_do_not_cover T c n S rs :
  c <> RDefectDojo -> Forall2 (site_report T c) S rs ->
  (forall m, In m S -> lines_apart (nspan n) (nspan m) = true) ->
  pline (sstart (nspan n)) <= pline (send (nspan n)) ->
  get_findings_for_location ByLineRange (Some rs) (pline (sstart (nspan n))) = [].
Proof.
  intros Hc HF. simpl. induction HF as [|m r S rs Hmr HF IH]; simpl; intros Hap Hwf; [reflexivity|].
  rewrite IH by (auto; intros; apply Hap; now right).
  destruct (site_report_lines _ _ _ _ Hc Hmr) as [l [-> [L1 L2]]]. simpl.
  specialize (Hap m (or_introl eq_refl)). unfold lines_apart in Hap.
  assert (E : in_line_range (pline (sstart (nspan n))) l = false) by (unfold in_line_range; lia).
  now rewrite E.
Qed.

Lemma get_findings_app rs1 rs2 line :
  get_findings_for_location ByLineRange (Some (rs1 ++ rs2)) line =
  get_findings_for_location ByLineRange (Some rs1) line ++ get_findings_for_location ByLineRange (Some rs2) line.
Proof. simpl. apply flat_map_app. Qed.

Lemma own_finding T c S1 n S2 rs1 r rs2 :
  c <> RDefectDojo ->
  Forall2 (site_report T c) S1 rs1 -> site_report T c n r -> Forall2 (site_report T c) S2 rs2 ->
  pline (sstart (nspan n)) <= pline (send (nspan n)) ->
  (forall m, In m (S1 ++ S2) -> lines_apart (nspan n) (nspan m) = true) ->
  report_change ByLineRange (Some (rs1 ++ r :: rs2)) n = mkchange (pline (sstart (nspan n))) (finding_list r).
Proof.
  intros Hc H1 Hr H2 Hwf Hap. unfold report_change. f_equal.
  change (r :: rs2) with ([r] ++ rs2). rewrite !get_findings_app.
  rewrite (others_do_not_cover T c n S1 rs1), (others_do_not_cover T c n S2 rs2); auto;
    try (intros; apply Hap; apply in_or_app; auto).
  rewrite app_nil_r. simpl.
  destruct (site_report_lines _ _ _ _ Hc Hr) as [l [-> [L1 L2]]]. simpl.
  assert (E : in_line_range (pline (sstart (nspan n))) l = true) by (unfold in_line_range; lia).
  rewrite E. unfold finding_list. now rewrite app_nil_r.
Qed.

(** * C18: the positional join of the default leave_Call / leave_Assign / leave_ClassDef *)
Lemma join_iff T rs excl inc nodes n :
  In n (on_result_found_nodes T FDefault (Some rs) excl inc nodes) <->
  In n nodes /\ default_kind (nkind n) = true /\
  (exists r l, In r rs /\ In l (rlocs r) /\ reports T (rcls r) (nkind n) (nspan n) l) /\
  line_filter T excl inc (nspan n) = true.
Proof.
  unfold on_result_found_nodes. rewrite filter_In, andb_true_iff, select_iff. tauto.
Qed.

Lemma changes_of_join T a o results excl inc nodes :
  map ch_line (reported_changes T a o results excl inc nodes) =
  map (fun n => pline (sstart (nspan n))) (on_result_found_nodes T o results excl inc nodes).
Proof. unfold reported_changes. rewrite map_map. reflexivity. Qed.

Lemma filter_nil_iff {A} (f : A -> bool) l : List.filter f l = [] <-> forall x, In x l -> f x = false.
Proof.
  induction l as [|a r IH]; simpl; [tauto|]. destruct (f a) eqn:E.
  - split; [discriminate|]. intros H. specialize (H a (or_introl eq_refl)). congruence.
  - rewrite IH. split; intros H x; [intros [<-|Hin]; auto|auto].
Qed.

Lemma nonnode_dropped T a rs excl inc nodes :
  (forall n, In n nodes -> default_kind (nkind n) = true ->
     forall r l, In r rs -> In l (rlocs r) -> ~ reports T (rcls r) (nkind n) (nspan n) l) ->
  on_result_found_nodes T FDefault (Some rs) excl inc nodes = [] /\
  reported_changes T a FDefault (Some rs) excl inc nodes = [].
Proof.
  intros H. assert (E : on_result_found_nodes T FDefault (Some rs) excl inc nodes = []).
  { unfold on_result_found_nodes. apply filter_nil_iff. intros n Hn.
    destruct (default_kind (nkind n)) eqn:Ek; [|reflexivity]. simpl.
    destruct (node_is_selected T FDefault (Some rs) excl inc n) eqn:Es; [|reflexivity].
    apply select_iff in Es. destruct Es as [[r [l [Hr [Hl Hrep]]]] _]. exfalso. eapply H; eauto. }
  split; [exact E|]. unfold reported_changes. now rewrite E.
Qed.

(** * rule_id.split(".")[-1] *)
Lemma last_dotted_from_no_dot s : forall acc, no_dot s -> last_dotted_from acc s = acc ++ s.
Proof.
  unfold no_dot. induction s as [|c r IH]; simpl; intros acc H; [now rewrite app_nil_r|].
  destruct (N.eqb_spec c 46) as [->|Hne]; [exfalso; apply H; now left|].
  rewrite IH by (intros Hin; apply H; now right). now rewrite <- app_assoc.
Qed.

Lemma last_dotted_from_dot a : forall acc b, last_dotted_from acc (a ++ 46%N :: b) = last_dotted_from [] b.
Proof.
  induction a as [|c r IH]; simpl; intros acc b; [reflexivity|].
  destruct (c =? 46)%N; apply IH.
Qed.

Lemma short_id_suffix a b : no_dot b -> short_id (a ++ 46%N :: b) = b.
Proof. intros H. unfold short_id. rewrite last_dotted_from_dot. now apply last_dotted_from_no_dot. Qed.
Lemma short_id_plain b : no_dot b -> short_id b = b.
Proof. intros H. unfold short_id. now apply last_dotted_from_no_dot. Qed.

(** * The subset theorem for every filter override, with stale / unmatched results in the list (review A16) *)
(** what filter_by_result tests for one result under override o *)
Definition node_matches (T : ltab) (o : filter_override) (n : node) (r : result) : bool :=
  match o with
  | FDefault => match_location T (nkind n) (nspan n) r
  | FFuzzyCall => node_kind_eqb (nkind n) KCall && fuzzy_match (nspan n) r
  | FSameLineStmt => node_kind_eqb (nkind n) KStmtLine && line_only_match (nspan n) r
  end.

Lemma node_kind_eqb_eq a b : node_kind_eqb a b = true <-> a = b.
Proof. destruct a, b; simpl; split; congruence. Qed.

Lemma select_iff_any T o rs excl inc n :
  node_is_selected T o (Some rs) excl inc n = true <->
  (exists r, In r rs /\ node_matches T o n r = true) /\ line_filter T excl inc (nspan n) = true.
Proof.
  unfold node_is_selected. rewrite andb_true_iff.
  assert (H : filter_by_result T o (Some rs) n = true <-> exists r, In r rs /\ node_matches T o n r = true).
  { destruct o; unfold filter_by_result, node_matches; simpl.
    - unfold results_for_node. apply nonempty_filter_iff.
    - destruct (nkind n); simpl; try (split; [discriminate | intros [r [_ H]]; discriminate]). apply existsb_exists.
    - destruct (nkind n); simpl; try (split; [discriminate | intros [r [_ H]]; discriminate]). apply existsb_exists. }
  rewrite H. tauto.
Qed.

(** r reports exactly the site n: one location, and n answers to it under override o *)
Definition site_report_o (T : ltab) (o : filter_override) (c : rclass) (n : node) (r : result) : Prop :=
  (o = FDefault -> rcls r = c) /\ (exists l, rlocs r = [l]) /\ node_matches T o n r = true.
(** a result that answers to no tested node (stale, foreign location, another construct) *)
Definition unmatched (T : ltab) (o : filter_override) (tested : list node) (r : result) : Prop :=
  forall n, In n tested -> node_matches T o n r = false.
Definition wf_lines (n : node) : Prop := pline (sstart (nspan n)) <= pline (send (nspan n)).

Lemma unique_any_override T o c cands tested :
  discipline_for T o c cands tested = true -> incl tested cands -> (forall n, In n tested -> wf_lines n) ->
  forall n m r, In n tested -> In m tested -> site_report_o T o c n r -> node_matches T o m r = true -> n = m.
Proof.
  intros Hd Hincl Hwf n m r Hn Hm [Hc [[l Hl] Hnr]] Hmr.
  destruct o; unfold node_matches in *; simpl in Hd.
  - specialize (Hc eq_refl). unfold match_location in Hnr, Hmr. rewrite Hl, Hc in *. simpl in Hnr, Hmr.
    rewrite orb_false_r in Hnr, Hmr.
    destruct c.
    + apply (unique_site_any T RBase cands Hd n m l); auto.
    + apply (unique_site_any T RSonar cands Hd n m l); auto.
    + apply (unique_site_dd T tested Hd n m l); auto.
  - apply andb_true_iff in Hnr, Hmr. destruct Hnr as [_ Hnr], Hmr as [_ Hmr]. unfold fuzzy_match in *. rewrite Hl in *.
    simpl in Hnr, Hmr. rewrite orb_false_r in Hnr, Hmr. apply (unique_site_fuzzy tested Hd n m l); auto.
  - apply andb_true_iff in Hnr, Hmr. destruct Hnr as [_ Hnr], Hmr as [_ Hmr]. unfold line_only_match in *. rewrite Hl in *.
    simpl in Hnr, Hmr. rewrite orb_false_r in Hnr, Hmr. apply (unique_site_stmt_line tested Hd n m l); auto. apply Hwf; auto.
Qed.

Lemma subset_exact_any T o c cands tested S rs U excl inc :
  discipline_for T o c cands tested = true -> incl tested cands -> (forall n, In n tested -> wf_lines n) ->
  Forall2 (site_report_o T o c) S rs -> incl S tested -> Forall (unmatched T o tested) U ->
  forall n, In n tested -> line_filter T excl inc (nspan n) = true ->
    (node_is_selected T o (Some (rs ++ U)) excl inc n = true <-> In n S).
Proof.
  intros Hd Hincl Hwf HF HS HU n Hn Hlf. rewrite select_iff_any. split.
  - intros [[r [Hr Hm]] _]. apply in_app_or in Hr. destruct Hr as [Hr | Hr].
    + destruct (Forall2_in_right _ _ _ HF r Hr) as [m [Hm' Hrep]].
      assert (m = n) by (eapply (unique_any_override T o c cands tested Hd Hincl Hwf m n r); auto). now subst.
    + rewrite Forall_forall in HU. rewrite (HU r Hr n Hn) in Hm. discriminate.
  - intros Hin. split; [| exact Hlf].
    destruct (Forall2_in_left _ _ _ HF n Hin) as [r [Hr [_ [_ Hm]]]]. exists r. split; [apply in_or_app; now left | exact Hm].
Qed.

(** * Findings of a change entry, for locations that lie on the lines of their site (all classes incl. DefectDojo) *)
(** r's only location starts on the start line of its site and ends within the site's lines *)
Definition on_start_line (n : node) (r : result) : Prop :=
  exists l, rlocs r = [l] /\ pline (lstart l) = pline (sstart (nspan n)) /\ pline (lend l) <= pline (send (nspan n)) /\
            pline (lstart l) <= pline (lend l).
(** r's only location lies within the lines of its site *)
Definition within_lines (n : node) (r : result) : Prop :=
  exists l, rlocs r = [l] /\ pline (sstart (nspan n)) <= pline (lstart l) /\ pline (lend l) <= pline (send (nspan n)).

Lemma others_do_not_cover_lines n S rs :
  wf_lines n -> Forall2 within_lines S rs -> (forall m, In m S -> lines_apart (nspan n) (nspan m) = true) ->
  get_findings_for_location ByLineRange (Some rs) (pline (sstart (nspan n))) = [].
Proof.
  intros Hwf HF. simpl. induction HF as [| m r S rs Hmr HF IH]; simpl; intros Hap; [reflexivity |].
  rewrite IH by (intros; apply Hap; now right).
  destruct Hmr as [l [-> [L1 L2]]]. simpl. specialize (Hap m (or_introl eq_refl)). unfold lines_apart in Hap.
  destruct (in_line_range (pline (sstart (nspan n))) l) eqn:E; [| reflexivity].
  exfalso. unfold in_line_range in E. unfold wf_lines in Hwf. lia.
Qed.

Lemma own_finding_lines S1 n S2 rs1 r rs2 :
  wf_lines n -> Forall2 within_lines S1 rs1 -> on_start_line n r -> Forall2 within_lines S2 rs2 ->
  (forall m, In m (S1 ++ S2) -> lines_apart (nspan n) (nspan m) = true) ->
  report_change ByLineRange (Some (rs1 ++ r :: rs2)) n = mkchange (pline (sstart (nspan n))) (finding_list r).
Proof.
  intros Hwf H1 Hr H2 Hap. unfold report_change. f_equal.
  change (r :: rs2) with ([r] ++ rs2). rewrite !get_findings_app.
  rewrite (others_do_not_cover_lines n S1 rs1), (others_do_not_cover_lines n S2 rs2); auto;
    try (intros; apply Hap; apply in_or_app; auto).
  rewrite app_nil_r. simpl. destruct Hr as [l [-> [L1 [L2 L3]]]]. simpl.
  assert (E : in_line_range (pline (sstart (nspan n))) l = true) by (unfold in_line_range; lia).
  rewrite E. unfold finding_list. now rewrite app_nil_r.
Qed.

(** * No change entry carries a finding of another rule (given the readers' invariant finding.rule = result.rule_id) *)
Definition wf_finding (r : result) : Prop := forall f, rfinding r = Some f -> frule f = rrule_id r.
Lemma no_foreign_finding a l rules file n f :
  (forall r, In r l -> wf_finding r) ->
  In f (ch_findings (report_change a (findings_for_rule (Some (of_results l)) rules file) n)) -> In (frule f) rules.
Proof.
  intros Hwf Hin. destruct a. unfold report_change in Hin. cbn [ch_findings] in Hin.
  apply (proj1 (findings_by_line _ _ _)) in Hin. destruct Hin as [r [Hr [Hf _]]].
  apply findings_for_rule_In in Hr. destruct Hr as [k [Hk Hr]]. apply lookup_of_results in Hr. destruct Hr as [Hl [<- _]].
  rewrite (Hwf r Hl f Hf). exact Hk.
Qed.
