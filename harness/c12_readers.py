def run(ctx):
    pass
