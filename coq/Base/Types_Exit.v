(** Types of the table values that tools/fragments_exit.py extracts from codemodder.run / cli.py / codetf.py (C20). *)
From CM Require Export Base.Str.

(** the guarded [return <int>] statements of [codemodder.run], named by what they test *)
Inductive guard_id :=
| GDirMissing          (* if not os.path.exists(argv.directory): return c *)
| GSarifError          (* try: detect_sarif_tools(...) except (DuplicateToolError, FileNotFoundError): return c *)
| GResultFileMissing   (* for f in chain(<result file lists>): if not os.path.exists(f): return c *)
| GAIMisconfigured     (* try: CodemodExecutionContext(...) except MisconfiguredAIClient: return c *)
| GReportWrite.        (* if codetf.write_report(argv.output) == k: return c *)

(** the result-file options whose values reach the existence loop (SARIF files are opened by detect_sarif_tools) *)
Inductive result_group := GrSonarIssues | GrSonarHotspots | GrDefectDojo | GrContrast.
