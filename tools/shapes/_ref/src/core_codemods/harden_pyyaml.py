from typing import Protocol, Union, cast

import libcst as cst

from codemodder.codemods.libcst_transformer import (
    LibcstResultTransformer,
    LibcstTransformerPipeline,
)
from codemodder.codemods.semgrep import SemgrepRuleDetector
from codemodder.codemods.utils_mixin import NameResolutionMixin
from core_codemods.api import CoreCodemod, Metadata, Reference, ReviewGuidance

YAML_MODULE_NAME = "yaml"


class CodemodProtocol(Protocol):
    def add_needed_import(self, module: str, obj=None): ...
    def get_aliased_prefix_name(self, node: cst.CSTNode, module: str): ...
    def parse_expression(self, code: str) -> cst.BaseExpression: ...
    def update_arg_target(
        self, node: cst.Call, new_args: list[cst.Arg]
    ) -> cst.Call: ...


class HardenPyyamlCallMixin:
    def update_call(
        self: CodemodProtocol,
        original_node: cst.Call,
        updated_node: cst.Call,
        maybe_aliased_name: str | None = None,
    ) -> cst.Call:
        module_name = maybe_aliased_name or YAML_MODULE_NAME
        if not maybe_aliased_name:
            self.add_needed_import(YAML_MODULE_NAME)

        updated_node = cast(cst.Call, updated_node)  # satisfy the type checker
        safe_loader = self.parse_expression(f"{module_name}.SafeLoader")
        new_args = list(updated_node.args)
        # The loader is either given by keyword (anywhere) or as the second positional argument
        loader_idx = next(
            (
                idx
                for idx, arg in enumerate(new_args)
                if arg.keyword is not None and arg.keyword.value == "Loader"
            ),
            None,
        )
        if loader_idx is None and len(new_args) > 1:
            if all(arg.keyword is None and arg.star == "" for arg in new_args[:2]):
                loader_idx = 1
        if loader_idx is not None:
            # This is the case where the arg is present but a bad value
            new_args[loader_idx] = new_args[loader_idx].with_changes(value=safe_loader)
        else:
            # This is the case where the arg is not present
            # Note that this case is deprecated in PyYAML 5.1 since the default is unsafe
            new_args.append(
                cst.Arg(
                    keyword=cst.Name("Loader"),
                    value=safe_loader,
                    equal=cst.AssignEqual(
                        whitespace_before=cst.SimpleWhitespace(""),
                        whitespace_after=cst.SimpleWhitespace(""),
                    ),
                )
            )
        return self.update_arg_target(updated_node, new_args)


class HardenPyyamlTransformer(
    LibcstResultTransformer,
    NameResolutionMixin,
    HardenPyyamlCallMixin,
    CodemodProtocol,
):
    change_description = "Replace unsafe `pyyaml` loader with `SafeLoader` in calls to `yaml.load` or custom loader classes."

    def on_result_found(
        self,
        original_node: Union[cst.Call, cst.ClassDef],
        updated_node: Union[cst.Call, cst.ClassDef],
    ):
        # TODO: provide different change description for each case.
        maybe_aliased_name = self.get_aliased_prefix_name(
            original_node, YAML_MODULE_NAME
        )
        match original_node, updated_node:
            case cst.Call(), cst.Call():
                return self.update_call(original_node, updated_node, maybe_aliased_name)
            case cst.ClassDef(), _:
                return updated_node.with_changes(
                    bases=self._update_bases(original_node, maybe_aliased_name)
                )
        return updated_node

    def _update_bases(
        self, original_node: cst.ClassDef, maybe_aliased_name: str | None = None
    ) -> list[cst.Arg]:
        new = []
        base_names = [
            f"yaml.{klas}"
            for klas in ("UnsafeLoader", "Loader", "BaseLoader", "FullLoader")
        ]
        module_name = maybe_aliased_name or YAML_MODULE_NAME
        for base_arg in original_node.bases:
            base_name = self.find_base_name(base_arg.value)
            if base_name not in base_names:
                new.append(base_arg)
                continue

            match base_arg.value:
                case cst.Name():
                    if not maybe_aliased_name:
                        self.add_needed_import(module_name, "SafeLoader")
                    self.remove_unused_import(base_arg.value)
                    base_arg = base_arg.with_changes(
                        value=base_arg.value.with_changes(value="SafeLoader")
                    )
                case cst.Attribute():
                    base_arg = base_arg.with_changes(
                        value=base_arg.value.with_changes(attr=cst.Name("SafeLoader"))
                    )
            new.append(base_arg)
        return new


HardenPyyaml = CoreCodemod(
    metadata=Metadata(
        name="harden-pyyaml",
        summary="Replace unsafe `pyyaml` loader with `SafeLoader`",
        review_guidance=ReviewGuidance.MERGE_WITHOUT_REVIEW,
        references=[
            Reference(
                url="https://owasp.org/www-community/vulnerabilities/Deserialization_of_untrusted_data"
            ),
            Reference(
                url="https://github.com/yaml/pyyaml/wiki/PyYAML-yaml.load(input)-Deprecation"
            ),
        ],
    ),
    detector=SemgrepRuleDetector(
        """
        rules:
            - pattern-either:
              - patterns:
                  - pattern: yaml.load(...)
                  - pattern-inside: |
                      import yaml
                      ...
                      yaml.load($ARG)
              - patterns:
                  - pattern: yaml.load(...)
                  - pattern-inside: |
                      import yaml
                      ...
                      yaml.load(...,$ARG)
                  - metavariable-pattern:
                      metavariable: $ARG
                      patterns:
                        - pattern-either:
                            - pattern: yaml.Loader
                            - pattern: yaml.BaseLoader
                            - pattern: yaml.FullLoader
                            - pattern: yaml.UnsafeLoader
              - patterns:
                  - pattern: yaml.load(...)
                  - pattern-inside: |
                      import yaml
                      ...
                      yaml.load(...,Loader=$ARG)
                  - metavariable-pattern:
                      metavariable: $ARG
                      patterns:
                        - pattern-either:
                            - pattern: yaml.Loader
                            - pattern: yaml.BaseLoader
                            - pattern: yaml.FullLoader
                            - pattern: yaml.UnsafeLoader
              - patterns:
                  - pattern: |
                      class $X(...,$LOADER, ...):
                        ...
                  - metavariable-pattern:
                      metavariable: $LOADER
                      patterns:
                        - pattern-either:
                            - pattern: yaml.Loader
                            - pattern: yaml.BaseLoader
                            - pattern: yaml.FullLoader
                            - pattern: yaml.UnsafeLoader
        """
    ),
    transformer=LibcstTransformerPipeline(HardenPyyamlTransformer),
)
