(** Model of the exit status of the console entry point (C20): codemodder.run's ordered chain of guarded returns,
    ArgumentParser.error, CodeTF.write_report.  Definitions only.

    A [world] fixes the outcome of every oracle the chain consults.  [run_exit] interprets the GENERATED chain
    (Generated/Tables.v: exit_chain, write_report_status_used, argparse_error_code, exit_checked_groups,
    max_workers_validated); tools/fragments_exit.py guarantees (fail-closed) that the statements between the guards are
    the known ones, in the known order, so a chain is the canonical pipeline with some guards possibly absent or with other codes. *)
From CM Require Export Base.Str Base.Types_Exit.

Inductive argparse_outcome :=
| ParseErr      (* parser.error(...): unknown option, missing operand, bad value, include together with exclude ... *)
| EarlyExit0    (* --help / --version / --list / --describe: parser.exit() *)
| Args.         (* a namespace *)

Inductive sarif_outcome :=
| SarifOk | SarifDuplicate (* two files of one tool *) | SarifNotFound
| SarifMalformed.  (* not JSON / no "runs" / a directory: json or KeyError or OSError escapes detect_sarif_tools *)

Record world := {
  w_argparse : argparse_outcome;
  w_bad_workers : bool;       (* --max-workers <= 0 (an int, so plain [type=int] accepts it) *)
  w_bad_line : bool;          (* a --path-include/--path-exclude item "path:<not an integer>" *)
  w_dir_exists : bool;
  w_sarif : sarif_outcome;
  w_miss_issues : bool;       (* some --sonar-issues-json file does not exist *)
  w_miss_hotspots : bool;
  w_miss_dd : bool;
  w_miss_contrast : bool;
  w_ai_consistent : bool;     (* llm.setup_*_llm_client: key and endpoint both set or both unset *)
  w_output : bool;            (* --output given *)
  w_write_ok : bool;          (* open(output, "w") and the write succeed *)
  w_write_partial : bool;     (* when they do not: open() succeeded and a truncated file stays behind (disk full ...) *)
  w_unreadable_target : bool  (* the target tree holds a file without the owner-read permission bit AND a selected codemod is
                                 semgrep-detected, so that the file is handed to `semgrep scan` as an explicit target *)
}.

(** what is at the --output path afterwards *)
Inductive report_state :=
| RNone      (* nothing that was not there before *)
| RPartial   (* a file that is not a complete report *)
| RFull.     (* the report *)

Inductive outcome :=
| Exit (status : Z) (report : report_state)
| Crash.      (* an exception escapes run(): traceback; the interpreter's status for it is 1 *)

Record exit_tables := {
  t_chain : list (guard_id * Z);
  t_write_used : bool;          (* the value of write_report reaches a return *)
  t_argparse_code : Z;          (* ArgumentParser.error: sys.exit(code) *)
  t_groups : list result_group; (* result-file lists that go through the existence loop *)
  t_workers_validated : bool;   (* --max-workers has a type that rejects values <= 0 *)
  t_semgrep_filtered : bool     (* semgrep.run hands semgrep only the targets it accepts (unreadable files are skipped) *)
}.

Definition guard_eqb (a b : guard_id) : bool :=
  match a, b with
  | GDirMissing, GDirMissing | GSarifError, GSarifError | GResultFileMissing, GResultFileMissing
  | GAIMisconfigured, GAIMisconfigured | GReportWrite, GReportWrite => true
  | _, _ => false
  end.
Definition group_eqb (a b : result_group) : bool :=
  match a, b with
  | GrSonarIssues, GrSonarIssues | GrSonarHotspots, GrSonarHotspots | GrDefectDojo, GrDefectDojo | GrContrast, GrContrast => true
  | _, _ => false
  end.

Fixpoint guard_code (g : guard_id) (chain : list (guard_id * Z)) : option Z :=
  match chain with
  | [] => None
  | (g', c) :: r => if guard_eqb g g' then Some c else guard_code g r
  end.

(** position of the guards in the source: the pipeline below is only meaningful for a chain in this order *)
Definition guard_rank (g : guard_id) : nat :=
  match g with GDirMissing => 0 | GSarifError => 1 | GResultFileMissing => 2 | GAIMisconfigured => 3 | GReportWrite => 4 end.
Fixpoint ranks_increasing (l : list nat) : bool :=
  match l with
  | a :: ((b :: _) as r) => Nat.ltb a b && ranks_increasing r
  | _ => true
  end.
Definition chain_canonical (chain : list (guard_id * Z)) : bool :=
  ranks_increasing (map (fun gc => guard_rank (fst gc)) chain).

Definition group_missing (w : world) (g : result_group) : bool :=
  match g with GrSonarIssues => w_miss_issues w | GrSonarHotspots => w_miss_hotspots w
             | GrDefectDojo => w_miss_dd w | GrContrast => w_miss_contrast w end.
(** a reader opens the files of this option later in the run (nothing reads --contrast-vulnerabilities-xml) *)
Definition group_consumed (g : result_group) : bool :=
  match g with GrContrast => false | _ => true end.
Definition all_groups : list result_group := [GrSonarIssues; GrSonarHotspots; GrDefectDojo; GrContrast].

Definition on_guard (chain : list (guard_id * Z)) (g : guard_id) : outcome :=
  match guard_code g chain with Some c => Exit c RNone | None => Crash end.

(** the body of run() after parse_args *)
Definition run_body (T : exit_tables) (w : world) : outcome :=
  let chain := t_chain T in
  if negb (w_dir_exists w) then on_guard chain GDirMissing else
  match w_sarif w with
  | SarifMalformed => Crash
  | SarifDuplicate | SarifNotFound => on_guard chain GSarifError
  | SarifOk =>
      if existsb (group_missing w) (t_groups T) then on_guard chain GResultFileMissing else
      if existsb (fun g => group_missing w g && group_consumed g && negb (existsb (group_eqb g) (t_groups T))) all_groups then Crash else
      if negb (w_ai_consistent w) then on_guard chain GAIMisconfigured else
      (* apply_codemods: int("x") in the line filter, ThreadPoolExecutor(max_workers <= 0) *)
      (* find_semgrep_results: semgrep exits 2 on an explicit target it cannot read, run() raises CalledProcessError *)
      if w_unreadable_target w && negb (t_semgrep_filtered T) then Crash else
      if w_bad_line w || w_bad_workers w then Crash else
      if w_output w then
        if w_write_ok w then Exit 0 RFull
        else
          let left := if w_write_partial w then RPartial else RNone in   (* write_report catches the exception; the file is not removed *)
          if t_write_used T then match guard_code GReportWrite chain with Some c => Exit c left | None => Exit 0 left end
          else Exit 0 left
      else Exit 0 RNone
  end.

(** What the target tree contains (no file at all, only sub-directories, only files no codemod looks at, symlinks,
    undecodable files, a deep tree ...) is NOT an oracle of the chain: no guard and no modelled operation consults it.
    The shape is therefore a parameter that [run_exit_in] ignores; the correspondence run varies it for real
    (harness/c20.py TREE_SHAPES) and measures that status and report do not depend on it.  One coupling exists and is
    part of the meaning of [w_bad_line]: the non-integer `path:line` item must match a processed file to raise.
    One thing in the tree IS an oracle (found by varying the shape): a file that lacks the owner-read bit, when a
    semgrep-detected codemod is selected — the world field [w_unreadable_target]. *)
Inductive tree_shape :=
| OneFile | EmptyDir | DirsOnly | NonPythonOnly | ExcludedOnly | SymlinkOnly | DanglingSymlink | UnreadableFiles | DeepTree | ManyFiles.

Definition run_exit (T : exit_tables) (w : world) : outcome :=
  match w_argparse w with
  | ParseErr => Exit (t_argparse_code T) RNone
  | EarlyExit0 => Exit 0 RNone
  | Args =>
      if t_workers_validated T && w_bad_workers w then Exit (t_argparse_code T) RNone   (* the type function raises: parser.error *)
      else if chain_canonical (t_chain T) then run_body T w
      else Crash    (* a chain in another order is outside what the pipeline models *)
  end.

Definition run_exit_in (shape : tree_shape) (T : exit_tables) (w : world) : outcome := run_exit T w.
