"""C06 — SAST-driven fixes land exactly on the reported findings and carry them.

Implementation side: (1) the real match_location implementations (Result, SonarResult, DefectDojoResult), UtilsMixin
(results_for_node, filter_by_result, node_is_selected) and the transformer overrides, FileContext.get_findings_for_location,
BaseCodemod._process_file / RemediationCodemod.get_files_to_analyze, all in process on generated spans and locations;
(2) the real CLI on generated programs with n equally vulnerable sites, one file per subset of reported sites, result files
in the tool's own format computed from the real libcst spans, plus decoys.
Model/spec side: coq/Model/Location.v, coq/Harness/C06_run.v evaluated by vm_compute."""
from __future__ import annotations

import json
import shutil
from concurrent.futures import ThreadPoolExecutor
from pathlib import Path
from types import SimpleNamespace

from harness import core
from harness import c06_sites as S
from harness.core import cN, cZ, cbool, clist, copt, cpair, cstr

META = {
    "rule": "pure: random spans x locations around the tolerance boundaries (same/shifted lines, columns shifted by -3..3, "
            "multi-location results, Tuple/Call/Assign/ClassDef/statement nodes) through the real match_location / UtilsMixin / "
            "FileContext / _process_file code; end to end: per SAST codemod a project with one file per subset S of n in {2,3} "
            "(thorough: up to 4) equally vulnerable sites at random indentation/column offsets, reported in the tool's own "
            "format with decoys (foreign rule, foreign file, RESOLVED/CLOSED, empty result file); about half of the files with "
            "reported sites live under the default-excluded locations of find-and-fix codemods (tests/, build/, venv/, conftest.py, "
            "__tests__, dist/, site-packages), which SAST codemods must not apply; non-trivial = a case where at "
            "least one site is reported and at least one is not, or a span/location pair within two columns of matching",
    "trusted": ["libcst PositionProvider gives the spans the transformers see (the harness uses the same provider)",
                "json / pathlib of CPython"],
    "assumptions": [
        "span discipline: distinct Call/Assign/ClassDef nodes (and the nodes a transformer tests) differ in a line or by >= 2 "
        "columns at one end — checked with libcst on every generated program (e2e_discipline_ok)",
        "the result file formats written by the harness are the tools' formats (Sonar issues JSON, Semgrep SARIF, DefectDojo "
        "findings JSON) as read by the readers of C12",
        "which sites a transformer recognises and what it writes for a selected node is the transformer's business (C16/C18)",
    ],
}

IMPORTS = "From CM Require Import Harness.RunBase Harness.C06_run Model.Location.\nLocal Open Scope Z_scope.\n"

KINDS = ["KCall", "KAssign", "KClassDef", "KTuple", "KStmtLine", "KOther"]


# ------------------------------------------------------------------------------------------------
# Coq printing
# ------------------------------------------------------------------------------------------------
def c_span(s):
    return "(sp %s %s %s %s)" % tuple(cZ(x) for x in s)


def c_loc(f, l):
    return "(lc %s %s %s %s %s)" % (cstr(f), *(cZ(x) for x in l))


def c_result(r):
    """r: dict(ident, cls, rule, locs=[(file,(l1,c1,l2,c2))], fid=str|None)"""
    return "(rs_ %s %s %s %s %s)" % (cN(r["ident"]), r["cls"], cstr(r["rule"]),
                                      clist([c_loc(f, l) for f, l in r["locs"]], "loc"),
                                      copt(None if r["fid"] is None else cstr(r["fid"]), "str"))


def c_results(rs):
    return clist([c_result(r) for r in rs], "result")


def c_node(n):
    return "(mknode %s %s %s)" % (cN(n[0]), n[1], c_span(n[2]))


def c_zlist(l):
    return clist([cZ(x) for x in l], "Z")


# ------------------------------------------------------------------------------------------------
# real objects
# ------------------------------------------------------------------------------------------------
def impl():
    import libcst as cst
    from libcst._position import CodePosition, CodeRange
    from codemodder.codetf import Finding, Rule
    from codemodder.result import LineInfo
    from codemodder.semgrep import SemgrepLocation, SemgrepResult
    from core_codemods.defectdojo.results import DefectDojoLocation, DefectDojoResult
    from core_codemods.sonar.results import SonarLocation, SonarResult
    return SimpleNamespace(**locals())


def mk_real_result(I, r):
    cls, loc_cls = {"RBase": (I.SemgrepResult, I.SemgrepLocation), "RSonar": (I.SonarResult, I.SonarLocation),
                    "RDefectDojo": (I.DefectDojoResult, I.DefectDojoLocation)}[r["cls"]]
    locs = [loc_cls(file=Path(f), start=I.LineInfo(l[0], l[1]), end=I.LineInfo(l[2], l[3])) for f, l in r["locs"]]
    finding = None if r["fid"] is None else I.Finding(id=r["fid"], rule=I.Rule(id=r["rule"], name=r["rule"]))
    obj = cls(rule_id=r["rule"], locations=locs, finding_id=str(r["ident"]), finding=finding)
    obj._ident = r["ident"]
    return obj


def mk_real_node(I, kind):
    cst = I.cst
    return {
        "KCall": lambda: cst.Call(func=cst.Name("f")),
        "KAssign": lambda: cst.Assign(targets=[cst.AssignTarget(cst.Name("x"))], value=cst.Name("y")),
        "KClassDef": lambda: cst.ClassDef(name=cst.Name("A"), body=cst.IndentedBlock(body=[cst.SimpleStatementLine(body=[cst.Pass()])])),
        "KTuple": lambda: cst.Tuple(elements=[]),
        "KStmtLine": lambda: cst.SimpleStatementLine(body=[cst.Pass()]),
        "KOther": lambda: cst.Name("z"),
    }[kind]()


def mk_range(I, s):
    return I.CodeRange(start=I.CodePosition(s[0], s[1]), end=I.CodePosition(s[2], s[3]))


# ------------------------------------------------------------------------------------------------
# generators
# ------------------------------------------------------------------------------------------------
def gen_span(rng):
    l1 = rng.randint(1, 6)
    l2 = l1 if rng.random() < 0.75 else l1 + rng.randint(1, 2)
    c1 = rng.randint(0, 12)
    c2 = rng.randint(0, 14) if l2 != l1 else c1 + rng.randint(0, 12)
    return (l1, c1, l2, c2)


def gen_loc_near(rng, s, cls):
    """a location near span s: the tool convention shift plus a small perturbation, sometimes another line"""
    l1, c1, l2, c2 = s
    if cls == "RDefectDojo":
        ln = rng.choice([l1, l2, l1 - 1, l2 + 1, rng.randint(l1, l2)])
        return (ln, -1, ln, -1)
    ds = rng.choice([-3, -2, -1, -1, 0, 0, 0, 1, 1, 2, 3])
    de = rng.choice([-3, -2, -1, -1, 0, 0, 0, 1, 1, 2, 3])
    dl1 = rng.choice([0] * 8 + [1, -1])
    dl2 = rng.choice([0] * 8 + [1, -1])
    return (l1 + dl1, c1 + ds, l2 + dl2, c2 + de)


def gen_result(rng, ident, s, cls=None, rule="r", file="a.py"):
    cls = cls or rng.choice(["RBase", "RBase", "RSonar", "RSonar", "RDefectDojo"])
    nloc = rng.choice([1, 1, 1, 2, 0, 3])
    locs = []
    for _ in range(nloc):
        near = s if rng.random() < 0.8 else gen_span(rng)
        locs.append((file, gen_loc_near(rng, near, cls)))
    fid = None if rng.random() < 0.1 else f"F{ident}"
    return {"ident": ident, "cls": cls, "rule": rule, "locs": locs, "fid": fid}


# ------------------------------------------------------------------------------------------------
# (1) pure correspondence
# ------------------------------------------------------------------------------------------------
def run_pure(ctx):
    rng, I = ctx.rng, impl()
    n = 400 if ctx.quick() else 4000
    if getattr(ctx, "deep", False):
        n *= 3
    # --- match_location
    cases, meta = [], []
    for i in range(n):
        kind = rng.choice(KINDS)
        s = gen_span(rng)
        r = gen_result(rng, i, s)
        obs = bool(mk_real_result(I, r).match_location(mk_range(I, s), mk_real_node(I, kind)))
        cases.append(cpair(kind, c_span(s), c_result(r), cbool(obs)))
        meta.append((kind, s, r, obs))
        ctx.count(f"pure:class:{r['cls']}")
        ctx.count(f"pure:matched:{obs}")
        near = any(abs(l[1] - s[1]) <= 2 and abs(l[3] - s[3]) <= 2 and l[0] == s[0] for _, l in r["locs"])
        ctx.case({"match_location": [kind, s, r, obs]}, nontrivial_key=("pure", kind, s, repr(r["locs"]), r["cls"]) if near or obs else None,
                 sample=obs and len(r["locs"]) > 1)
    bad = core.eval_bad_indices(ctx, "c06_pure", IMPORTS, "pure_case", cases, ["pure_model_ok"])
    for i in bad["pure_model_ok"]:
        kind, s, r, obs = meta[i]
        ctx.mismatch("result.match_location vs Model.Location.match_location",
                     f"{r['cls']}.match_location(span={s}, node={kind}) on locations {r['locs']} answered {obs}",
                     {"op": "match_location", "kind": kind, "span": s, "result": r, "observed": obs})

    # --- two spans, one location: the implementation must not match two separated spans (C06_unique_site)
    cases, meta = [], []
    corpus = []
    tabs = ctx.tables or {}
    ts, te = tabs.get("loc_tol_start", [-1, 0]), tabs.get("loc_tol_end", [-1, 0])
    # witness of the negative branch of C06_unique_site_statement: the two most distant admitted offsets
    if ts and te:
        a, b = min(ts), max(ts)
        corpus.append(("KCall", (1, 10 + a, 1, 20 + te[0]), (1, 10 + b, 1, 20 + te[0]), (1, 10, 1, 20), "RBase"))
        a, b = min(te), max(te)
        corpus.append(("KCall", (1, 10 + ts[0], 1, 20 + a), (1, 10 + ts[0], 1, 20 + b), (1, 10, 1, 20), "RSonar"))
    for i in range(len(corpus) + n // 2):
        if i < len(corpus):
            kind, p, q, l, cls = corpus[i]
        else:
            kind = rng.choice(KINDS)
            cls = rng.choice(["RBase", "RSonar", "RDefectDojo"])
            p = gen_span(rng)
            q = (p[0], p[1] + rng.choice([-3, -2, -2, 0, 2, 2, 3, 1]), p[2], p[3] + rng.choice([-3, -2, 0, 0, 2, 3, 1])) \
                if rng.random() < 0.8 else gen_span(rng)
            mid = (p[0], (p[1] + q[1] + rng.choice([0, 1])) // 2, p[2], (p[3] + q[3] + rng.choice([0, 1])) // 2)
            l = gen_loc_near(rng, mid, cls) if rng.random() < 0.5 else (
                (mid[0], mid[1] + (1 if cls == "RBase" else 0), mid[2], mid[3] + (1 if cls == "RBase" else 0)) if cls != "RDefectDojo"
                else (mid[0], -1, mid[0], -1))
        r = {"ident": i, "cls": cls, "rule": "r", "locs": [("a.py", l)], "fid": None}
        R, nd = mk_real_result(I, r), mk_real_node(I, kind)
        op, oq = bool(R.match_location(mk_range(I, p), nd)), bool(R.match_location(mk_range(I, q), nd))
        cases.append(cpair(kind, c_span(p), c_span(q), c_result(r), cbool(op), cbool(oq)))
        meta.append((kind, p, q, r, op, oq))
        ctx.count(f"uniq:both_matched:{op and oq}")
        ctx.case({"two_spans": [kind, p, q, l, cls, op, oq]}, nontrivial_key=("uniq", kind, p, q, l, cls) if (op or oq) else None)
    bad = core.eval_bad_indices(ctx, "c06_uniq", IMPORTS, "uniq_case", cases, ["uniq_model_ok", "uniq_spec_ok"])
    for i in bad["uniq_model_ok"]:
        kind, p, q, r, op, oq = meta[i]
        ctx.mismatch("result.match_location vs Model.Location.match_location (pairs)",
                     f"{r['cls']}.match_location on spans {p},{q} location {r['locs']} answered {op},{oq}",
                     {"op": "match_location_pair", "kind": kind, "span": p, "span2": q, "result": r, "observed": [op, oq]})
    for i in bad["uniq_spec_ok"]:
        kind, p, q, r, op, oq = meta[i]
        ctx.violation("kf_location_tolerance_too_wide",
                      f"one {r['cls']} location {r['locs'][0][1]} selects two separated spans {p} and {q} ({kind}): a finding "
                      f"reported for one site also selects another",
                      {"op": "match_location_pair", "kind": kind, "span": p, "span2": q, "result": r, "observed": [op, oq],
                       "expected": "at most one of two spans that differ by >= 2 columns (or a line) matches one location",
                       "theorem": "C06_unique_site"})

    # --- UtilsMixin + overrides
    from codemodder.codemods.base_visitor import UtilsMixin
    from core_codemods.jwt_decode_verify import JwtDecodeVerifySASTTransformer
    from core_codemods.semgrep.semgrep_rsa_key_size import RsaKeySizeTransformer
    from core_codemods.sonar.sonar_fix_math_isclose import FixMathIsCloseSonarTransformer
    from core_codemods.tempfile_mktemp import TempfileMktempTransformer

    from libcst.codemod import CodemodContext
    from codemodder.file_context import FileContext as _FC

    def harness_class(base):
        """the real class, built by its real constructor; only node_position is replaced (the nodes are synthetic)"""
        class H(base):
            def __init__(self, results, excl, incl, pm):
                if base is UtilsMixin:
                    UtilsMixin.__init__(self, results, excl, incl)
                else:
                    base.__init__(self, CodemodContext(), results, _FC(Path("/proj"), Path("/proj/a.py"), excl, incl, results))
                self._pm = pm

            def node_position(self, node):
                return self._pm[id(node)]
        return H

    classes = {"FDefault": [harness_class(UtilsMixin)],
               "FFuzzyCall": [harness_class(c) for c in (JwtDecodeVerifySASTTransformer, FixMathIsCloseSonarTransformer, RsaKeySizeTransformer)],
               "FSameLineStmt": [harness_class(TempfileMktempTransformer)]}
    cases, meta = [], []
    for i in range(n):
        ovr = rng.choice(["FDefault", "FDefault", "FFuzzyCall", "FSameLineStmt"])
        kind = rng.choice(KINDS if ovr == "FDefault" else (["KCall"] * 3 + KINDS if ovr == "FFuzzyCall" else ["KStmtLine"] * 3 + KINDS))
        s = gen_span(rng)
        mode = rng.choice(["none", "empty", "some", "some", "some"])
        if mode == "none":
            rs = None
        elif mode == "empty":
            rs = []
        else:
            rs = []
            for j in range(rng.randint(1, 3)):
                r = gen_result(rng, 10 * i + j, s)
                if ovr != "FDefault" and rng.random() < 0.7:
                    # locations inside the span (fuzzy) / on its lines
                    lo, hi = min(s[1], s[3]) - 1, max(s[1], s[3]) + 2
                    c = sorted([rng.randint(lo, hi), rng.randint(lo, hi)])
                    r["locs"] = [("a.py", (s[0] + rng.choice([0, 0, 0, 1]), c[0], s[2], c[1]))]
                rs.append(r)
        lf = rng.choice(["", "", "excl", "incl"])
        lines = sorted({rng.choice([s[0], s[0], s[2], s[0] + 1, 1]) for _ in range(rng.randint(1, 2))})
        excl, incl = (lines if lf == "excl" else []), (lines if lf == "incl" else [])
        real = None if rs is None else [mk_real_result(I, r) for r in rs]
        nd = mk_real_node(I, kind)
        Hc = rng.choice(classes[ovr])
        h = Hc(real, excl, incl, {id(nd): mk_range(I, s)})
        rfn = [x._ident for x in h.results_for_node(nd)] if ovr == "FDefault" else []
        fbr, sel = bool(h.filter_by_result(nd)), bool(h.node_is_selected(nd))
        cases.append(cpair(ovr, copt(None if rs is None else c_results(rs), "list result"), c_zlist(excl), c_zlist(incl),
                           c_node((i, kind, s)), clist([cN(x) for x in rfn], "N"), cbool(fbr), cbool(sel)))
        meta.append((ovr, Hc.__mro__[1].__name__, kind, s, rs, excl, incl, rfn, fbr, sel))
        ctx.count(f"select:{ovr}:{sel}")
        ctx.case({"select": meta[-1]}, nontrivial_key=("sel", ovr, kind, s, repr(rs), tuple(excl), tuple(incl)) if rs else None)
    bad = core.eval_bad_indices(ctx, "c06_sel", IMPORTS, "sel_case", cases, ["sel_model_ok"])
    for i in bad["sel_model_ok"]:
        m = meta[i]
        ctx.mismatch("UtilsMixin.results_for_node/filter_by_result/node_is_selected vs Model.Location",
                     f"{m[1]} ({m[0]}) on {m[2]} {m[3]} results={m[4]} excl={m[5]} incl={m[6]}: results_for_node={m[7]} "
                     f"filter_by_result={m[8]} node_is_selected={m[9]}",
                     {"op": "select", "case": m})

    # --- FileContext.get_findings_for_location
    from codemodder.file_context import FileContext
    cases, meta = [], []
    for i in range(n // 2):
        s = gen_span(rng)
        rs = None if rng.random() < 0.05 else [gen_result(rng, 10 * i + j, s) for j in range(rng.randint(0, 4))]
        for r in rs or []:
            # line ranges: make some locations span several lines
            r["locs"] = [(f, (l[0], l[1], l[0] + rng.choice([0, 0, 1, 2]), l[3])) for f, l in r["locs"]]
        line = rng.choice([s[0], s[0], s[2], s[0] + 1, s[0] - 1])
        real = None if rs is None else [mk_real_result(I, r) for r in rs]
        fc = FileContext(Path("/proj"), Path("/proj/a.py"), [], [], real)
        obs = [f.id for f in fc.get_findings_for_location(line)]
        cases.append(cpair(copt(None if rs is None else c_results(rs), "list result"), cZ(line), clist([cstr(x) for x in obs], "str")))
        meta.append((rs, line, obs))
        ctx.count(f"findings:count:{min(len(obs), 3)}")
        ctx.case({"findings_for_location": [rs, line, obs]}, nontrivial_key=("fnd", repr(rs), line) if obs else None)
    bad = core.eval_bad_indices(ctx, "c06_fnd", IMPORTS, "fnd_case", cases, ["fnd_model_ok"])
    for i in bad["fnd_model_ok"]:
        rs, line, obs = meta[i]
        ctx.mismatch("FileContext.get_findings_for_location vs Model.Location.get_findings_for_location",
                     f"line {line} results {rs}: observed {obs}", {"op": "findings", "results": rs, "line": line, "observed": obs})

    run_process_file(ctx, I, n // 2)


def run_process_file(ctx, I, n):
    """BaseCodemod._process_file / RemediationCodemod.get_files_to_analyze on real ResultSets with a recording pipeline"""
    rng = ctx.rng
    from codemodder.codemods.base_codemod import Metadata, ReviewGuidance, ToolMetadata, ToolRule
    from codemodder.codemods.base_transformer import BaseTransformerPipeline
    from core_codemods.sonar.api import SonarCodemod, SonarDetector
    from core_codemods.sonar.results import SonarResultSet

    class Recorder(BaseTransformerPipeline):
        def __init__(self):
            super().__init__()
            self.calls = []

        def apply(self, context, file_context, results):
            self.calls.append(results)
            return None

    RULES = ["python:S1", "python:S2", "pythonsecurity:S3", "x.y.r4"]
    FILES = ["a.py", "pkg/a.py", "pkg/b.py", "c.py"]
    # a real CodemodExecutionContext over a real directory holding FILES (no stub: any attribute the code reads exists)
    from codemodder.context import CodemodExecutionContext
    from codemodder.project_analysis.python_repo_manager import PythonRepoManager
    from codemodder.providers import load_providers
    from codemodder.registry import load_registered_codemods
    root = ctx.scratch / "pf_proj"
    core.write_tree(root, {f: "x = 1\n" for f in FILES})
    real_context = CodemodExecutionContext(root, True, False, load_registered_codemods(), load_providers(), PythonRepoManager(root), [], [], {}, 1)
    cases, meta = [], []
    for i in range(n):
        rules = rng.sample(RULES, rng.choice([1, 1, 2]))
        mode = rng.choice(["none", "empty", "foreign_rule", "foreign_file", "mixed", "mixed", "mixed"])
        file = rng.choice(FILES)
        if mode == "none":
            allr = None
        elif mode == "empty":
            allr = []
        else:
            allr = []
            for j in range(rng.randint(1, 5)):
                s = gen_span(rng)
                if mode == "foreign_rule":
                    rule, f = rng.choice([r for r in RULES if r not in rules]), file
                elif mode == "foreign_file":
                    rule, f = rng.choice(rules), rng.choice([x for x in FILES if x != file])
                else:
                    rule, f = rng.choice(RULES), rng.choice(FILES)
                r = gen_result(rng, 10 * i + j, s, cls="RSonar", rule=rule, file=f)
                if rng.random() < 0.2 and r["locs"]:
                    r["locs"].append((rng.choice(FILES), r["locs"][0][1]))
                allr.append(r)
        rec = Recorder()
        cm = SonarCodemod(metadata=Metadata(name="probe", summary="s", review_guidance=ReviewGuidance.MERGE_AFTER_REVIEW, description="d",
                                            tool=ToolMetadata(name="Sonar", rules=[ToolRule(id=r, name=r) for r in rules])),
                          transformer=rec, detector=SonarDetector(), requested_rules=list(rules))
        cx = real_context
        if allr is None:
            RS = None
        else:
            RS = SonarResultSet()
            for r in allr:
                RS.add_result(mk_real_result(I, r))
        fc = cm._process_file(root / file, cx, RS, list(rules))
        invoked = len(rec.calls) == 1
        seen = None
        if invoked and rec.calls[0] is not None:
            seen = [x._ident for x in rec.calls[0]]
        obs_files = [] if RS is None else sorted(str(p.relative_to(root)) for p in cm.get_files_to_analyze(cx, RS))
        if fc.results != (rec.calls[0] if invoked else fc.results):
            ctx.mismatch("_process_file", "FileContext.results differs from what the transformer received", {"case": [allr, rules, file]})
        cases.append(cpair(copt(None if allr is None else c_results(allr), "list result"), clist([cstr(r) for r in rules], "str"),
                           cstr(file), clist([cstr(f) for f in sorted(FILES)], "str"), cbool(invoked),
                           copt(None if seen is None else clist([cN(x) for x in seen], "N"), "list N"),
                           clist([cstr(f) for f in obs_files], "str")))
        meta.append((allr, rules, file, invoked, seen, obs_files))
        ctx.count(f"process_file:{mode}:invoked={invoked}")
        ctx.case({"process_file": meta[-1]}, nontrivial_key=("pf", repr(allr), tuple(rules), file) if allr else None)
    bad = core.eval_bad_indices(ctx, "c06_pf", IMPORTS, "pf_case", cases, ["pf_model_ok", "pf_spec_ok"])
    for i in bad["pf_model_ok"]:
        m = meta[i]
        ctx.mismatch("BaseCodemod._process_file / get_files_to_analyze vs Model.Location.process_file",
                     f"results={m[0]} rules={m[1]} file={m[2]}: invoked={m[3]} with {m[4]}; files_to_analyze={m[5]}",
                     {"op": "process_file", "case": m})
    for i in bad["pf_spec_ok"]:
        m = meta[i]
        ctx.violation("kf_foreign_results_reach_transformer",
                      f"_process_file for {m[2]} with rules {m[1]}: transformer invoked={m[3]} with results {m[4]}; the results of "
                      f"these rules located in this file are the only ones it may see (all results: {m[0]})",
                      {"op": "process_file", "case": m, "expected": "exactly the results of the requested rules located in the file; "
                       "no invocation when there are none", "theorem": "C06_foreign_ignored / C06_no_findings_short_circuit"})


# ------------------------------------------------------------------------------------------------
# (2) end to end
# ------------------------------------------------------------------------------------------------
def finding_id_for(ctx, tool, entry):
    if tool == "defectdojo":
        return str(entry["key"])
    if tool == "sonar" and (ctx.tables or {}).get("sonar_finding_id") == "IdIsFindingKey":
        return str(entry["key"])
    return entry["rule"]


def build_project(ctx, t: S.Template, n: int, root: Path, scenario="subsets"):
    """Writes the project; returns dict(files={path: info}, entries=[...])"""
    rng = ctx.rng
    files, entries = {}, []
    masks = list(range(2 ** n))
    if scenario == "same_line":
        masks = [1, 2, 3]
    elif scenario == "dd_inner_line":
        masks = [1]
    excluded_dirs = ["tests/test_f{m}.py", "build/lib/f{m}.py", "venv/f{m}.py", "conftest.py", "src/__tests__/f{m}.py",
                     "dist/f{m}.py", "test/f{m}.py", "lib/site-packages/f{m}.py"]
    rng.shuffle(excluded_dirs)
    kid = [0]

    def key():
        kid[0] += 1
        return (1000 + kid[0]) if t.tool == "defectdojo" else f"K{kid[0]}"

    for mask in masks:
        src, stmts = S.gen_program(rng, t, n, same_line_pair=(scenario == "same_line"), multiline=(scenario == "dd_inner_line"))
        fn = f"pkg/f{mask}.py"
        if scenario == "subsets" and mask != 0:
            # SAST codemods honour the user's patterns WITHOUT the default excludes of find-and-fix codemods: reported
            # sites in test code, build output, virtualenvs and conftest.py must be fixed like any other
            alt = excluded_dirs[mask % len(excluded_dirs)].format(m=mask)
            if alt not in files and (mask % 2 == 1 or rng.random() < 0.4):
                fn = alt
        sites, tested, cands = S.analyse(src, t, n)
        info = {"src": src, "stmts": stmts, "sites": sites, "tested": tested, "cands": cands, "expected": [], "site_key": {}}
        for i in range(1, n + 1):
            loc = S.tool_location(t.tool, sites[i]["reported"], sites[i]["reported_is_tuple"])
            if scenario == "dd_inner_line":
                loc = (loc[0] + 1, -1, loc[0] + 1, -1)
            if mask >> (i - 1) & 1:
                k = key()
                entries.append({"key": k, "rule": t.rule, "file": fn, "loc": loc})
                info["expected"].append(i)
                info["site_key"][i] = k
            elif scenario == "subsets":
                # decoys on an unreported site: another rule; for Sonar also closed issues of the right rule
                d = rng.choice(["foreign_rule", "closed", "none"])
                if d == "foreign_rule":
                    entries.append({"key": key(), "rule": S.FOREIGN_RULE[t.tool], "file": fn, "loc": loc, "decoy": d})
                elif d == "closed" and t.tool == "sonar":
                    entries.append({"key": key(), "rule": t.rule, "file": fn, "loc": loc, "status": rng.choice(["RESOLVED", "CLOSED"]),
                                    "decoy": d})
        files[fn] = info
    if scenario == "subsets":
        # foreign file: same program as pkg/f0.py under another directory, its first site reported there (and only there);
        # and a file that does not exist
        src0 = files["pkg/f0.py"]
        sites, tested, cands = S.analyse(src0["src"], t, n)
        k = key()
        info = {"src": src0["src"], "stmts": src0["stmts"], "sites": sites, "tested": tested, "cands": cands, "expected": [1],
                "site_key": {1: k}}
        entries.append({"key": k, "rule": t.rule, "file": "pkg2/f0.py",
                        "loc": S.tool_location(t.tool, sites[1]["reported"], sites[1]["reported_is_tuple"])})
        files["pkg2/f0.py"] = info
        entries.append({"key": key(), "rule": t.rule, "file": "pkg/absent.py", "loc": entries[-1]["loc"], "decoy": "absent_file"})
    rng.shuffle(entries)
    for fn, info in files.items():
        p = root / fn
        p.parent.mkdir(parents=True, exist_ok=True)
        p.write_text(info["src"])
    return files, entries


def observe(t, root: Path, files, report):
    res = [x for x in report.get("results", []) if x["codemod"] == t.id]
    obs = {"failed": [], "unfixed": [], "files": {}}
    chg = {}
    if res:
        obs["failed"] = res[0].get("failedFiles") or []
        obs["unfixed"] = [(u.get("path"), u.get("lineNumber"), u.get("id")) for u in (res[0].get("unfixedFindings") or [])]
        for cs in res[0]["changeset"]:
            chg.setdefault(cs["path"], []).extend(cs["changes"])
    for fn, info in files.items():
        after = (root / fn).read_text()
        n = len(info["sites"])
        rew = [i for i in range(1, n + 1) if (t.check(after, i) if t.check else info["stmts"][i - 1] not in after)]
        changes = [(c["lineNumber"], [f["id"] for f in c["findings"]], [f["rule"]["id"] for f in c["findings"]]) for c in chg.get(fn, [])]
        obs["files"][fn] = {"rewritten": rew, "changes": changes, "changed": after != info["src"]}
    return obs


def e2e_case_term(ctx, t, fn, info, entries, o):
    open_entries = [e for e in entries if S.is_open(t.tool, e)]
    results = [{"ident": j, "cls": S.RCLASS[t.tool], "rule": e["rule"], "locs": [(e["file"], e["loc"])],
                "fid": finding_id_for(ctx, t.tool, e)} for j, e in enumerate(open_entries)]
    site_ids = sorted(info["sites"])
    return ("(mke2e %s %s %s %s %s %s %s %s %s %s %s %s %s %s %s %s)" % (
        t.ovr, S.RCLASS[t.tool], clist([cstr(t.rule)], "str"), cstr(fn), c_results(results),
        clist([c_node(x) for x in info["tested"]], "node"), clist([c_node(x) for x in info["cands"]], "node"),
        clist([cpair(cN(i), cZ(info["sites"][i]["line"])) for i in site_ids], "N * Z"),
        cbool(t.lost_when_enclosed), clist([cpair(cZ(a), cZ(b)) for a, b in t.entry], "Z * Z"), clist([cZ(a) for a in t.own], "Z"),
        cbool(t.ignores_results), cbool(t.only_last),
        clist([cN(i) for i in info["expected"]], "N"), clist([cN(i) for i in o["rewritten"]], "N"),
        clist([cpair(cZ(c[0]), clist([cstr(x) for x in c[1]], "str")) for c in o["changes"]], "Z * list str")))


def classify_sites(t, info, o, model_ok=True):
    """A known class absorbs a case only if (a) the input has the shape of its witness and (b) the model of the code as
    written - the object of the `_refuted` theorems - predicts the observation exactly (model_ok)."""
    if not model_ok:
        return "kf_site_selection"
    if t.ignores_results and info["expected"] and set(info["expected"]) <= set(o["rewritten"]):
        return f"kf_results_not_consulted:{t.id.split('/')[-1]}"
    missing = [i for i in info["expected"] if i not in o["rewritten"]]
    if t.only_last and len(info["expected"]) > 1 and o["rewritten"] == [max(info["expected"])]:
        return f"kf_single_fix_per_file:{t.id.split('/')[-1]}"
    if t.ovr == "FFuzzyCall" and t.lost_when_enclosed and missing and set(o["rewritten"]) <= set(info["expected"]) and \
            all(info["sites"][i].get("wrapped") for i in missing):
        return f"kf_fuzzy_enclosing_call_selected:{t.id.split('/')[-1]}"
    extra = [i for i in o["rewritten"] if i not in info["expected"]]
    rep_lines = {info["sites"][i]["line"] for i in info["expected"]}
    if t.tool == "defectdojo" and extra and all(info["sites"][i]["line"] in rep_lines for i in extra) and \
            all(i in o["rewritten"] for i in info["expected"]):
        return "kf_dd_same_line_sites"
    return "kf_site_selection"


def classify_findings(t, info, o, entries, fn, model_ok=True):
    if not model_ok:
        return "kf_change_findings"
    if t.ignores_results and info["expected"]:
        return f"kf_results_not_consulted:{t.id.split('/')[-1]}"
    if t.only_last and len(info["expected"]) > 1:
        return f"kf_single_fix_per_file:{t.id.split('/')[-1]}"
    if all(d not in t.own for d, _ in t.entry) and info["expected"]:
        return f"kf_change_entry_off_site_line:{t.id.split('/')[-1]}"
    lines = [info["sites"][i]["line"] for i in info["expected"]]
    if len(set(lines)) < len(lines):
        return "kf_same_line_sites"
    if any(info["sites"][i]["line"] + d in lines for i in info["expected"] for d, _ in t.entry if d != 0 and d not in t.own):
        return f"kf_extra_entry_on_following_site_line:{t.id.split('/')[-1]}"
    if t.ovr == "FFuzzyCall" and t.acts_on_any_selected and any(info["sites"][i].get("wrapped") for i in info["expected"]):
        return f"kf_fuzzy_enclosing_call_selected:{t.id.split('/')[-1]}"
    if t.tool == "defectdojo":
        mine = {e["key"]: e for e in entries if e["file"] == fn and e["rule"] == t.rule}
        if any(mine[info["site_key"][i]]["loc"][0] != info["sites"][i]["line"] for i in info["expected"] if info["site_key"].get(i) in mine):
            return "kf_dd_inner_line_finding_dropped"
    return "kf_change_findings"


def run_one(ctx, t, n, scenario, idx):
    root = ctx.scratch / f"e2e_{idx}"
    proj = root / "proj"
    proj.mkdir(parents=True)
    files, entries = build_project(ctx, t, n, proj, scenario)
    rf = root / ("results.sarif" if t.tool == "semgrep" else "results.json")
    S.write_result_file(rf, t.tool, entries)
    return {"t": t, "n": n, "scenario": scenario, "root": root, "proj": proj, "files": files, "entries": entries, "rf": rf}


def exec_job(job):
    out = job["root"] / "out.json"
    r = core.run_cli([str(job["proj"]), S.cli_flag(job["t"].tool), str(job["rf"]), "--codemod-include", job["t"].id, "--output", str(out)])
    job["rc"], job["stderr"] = r["rc"], r["stderr"][-1500:]
    try:
        job["report"] = json.loads(out.read_text())
    except Exception:
        job["report"] = {}
    return job


def replay_payload(job, fn=None):
    return {"op": "e2e", "codemod": job["t"].id, "tool": job["t"].tool, "scenario": job["scenario"], "n": job["n"], "file": fn,
            "project": core.b64tree({f: i["src"] for f, i in job["files"].items()}),
            "files_meta": {f: {"stmts": i["stmts"], "expected": i["expected"], "site_key": {str(k): v for k, v in i["site_key"].items()}}
                           for f, i in job["files"].items()},
            "entries": job["entries"], "argv": [S.cli_flag(job["t"].tool), "<result file>", "--codemod-include", job["t"].id]}


def job_from_payload(ctx, body, idx):
    """Rebuild a job (project on disk, spans recomputed with libcst) from a replay / corpus payload."""
    t = [x for x in S.TEMPLATES if x.id == body["codemod"]][0]
    root = ctx.scratch / f"e2e_{idx}"
    proj = root / "proj"
    proj.mkdir(parents=True)
    tree = core.unb64tree(body["project"])
    core.write_tree(proj, tree)
    files = {}
    for fn, m in body["files_meta"].items():
        src = tree[fn].decode()
        n = len(m["stmts"])
        sites, tested, cands = S.analyse(src, t, n)
        files[fn] = {"src": src, "stmts": m["stmts"], "sites": sites, "tested": tested, "cands": cands, "expected": m["expected"],
                     "site_key": {int(k): v for k, v in m["site_key"].items()}}
    entries = [{**e, "loc": tuple(e["loc"])} for e in body["entries"]]
    rf = root / ("results.sarif" if t.tool == "semgrep" else "results.json")
    S.write_result_file(rf, t.tool, entries)
    return {"t": t, "n": body.get("n", 2), "scenario": body.get("scenario", "corpus"), "root": root, "proj": proj, "files": files,
            "entries": entries, "rf": rf}


def check_registry_coverage(ctx):
    """review A21: the template table is compared with the real registry on every run"""
    from codemodder.codemods.base_codemod import RemediationCodemod
    from codemodder.registry import load_registered_codemods
    registered = {c.id: c for c in load_registered_codemods().codemods if isinstance(c, RemediationCodemod)}
    have = {t.id for t in S.TEMPLATES}
    ctx.count("registry:sast_codemods", len(registered))
    ctx.count("registry:sast_codemods_with_template", len(have & set(registered)))
    for cid in sorted(set(registered) - have - set(S.NOT_COVERED)):
        ctx.mismatch("C06 end-to-end coverage", f"registered SAST codemod {cid} has no site template and is not listed in NOT_COVERED",
                     {"op": "coverage", "codemod": cid})
    for cid in sorted((have | set(S.NOT_COVERED)) - set(registered)):
        ctx.mismatch("C06 end-to-end coverage", f"{cid} is in the template table but is not a registered SAST codemod", {"op": "coverage", "codemod": cid})
    for t in S.TEMPLATES:
        c = registered.get(t.id)
        if c is not None and t.rule not in c.requested_rules:
            ctx.mismatch("C06 end-to-end coverage", f"{t.id}: the template's rule id {t.rule} is not one of the codemod's requested rules "
                         f"{c.requested_rules}", {"op": "coverage", "codemod": t.id})
    ctx.notes.append("SAST codemods not exercised end to end (NOT_COVERED): " + "; ".join(f"{k} ({v})" for k, v in sorted(S.NOT_COVERED.items())))


def run_e2e(ctx):
    check_registry_coverage(ctx)
    rng = ctx.rng
    quick = ctx.quick()
    deep = getattr(ctx, "deep", False)
    temps = [t for t in S.TEMPLATES if (t.quick or not quick or deep)]
    jobs, idx = [], 0
    by_id = {t.id: t for t in S.TEMPLATES}
    # corpus first: minimised witnesses of the _refuted theorems, then the same scenarios at fresh random layouts
    for f in sorted((core.VERIF / "corpus" / "C06").glob("*.json")):
        if json.loads(f.read_text()).get("op") != "e2e":
            continue        # e.g. the CodeQL witness, replayed by run_codeql
        jobs.append(job_from_payload(ctx, json.loads(f.read_text()), idx)); idx += 1
        jobs[-1]["scenario"] = "corpus:" + f.stem
    for tid, scen in (("sonar:python/secure-random", "same_line"), ("semgrep:python/harden-pyyaml", "same_line"),
                      ("defectdojo:python/avoid-insecure-deserialization", "same_line"),
                      ("defectdojo:python/avoid-insecure-deserialization", "dd_inner_line")):
        jobs.append(run_one(ctx, by_id[tid], 2 if scen == "same_line" else 1, scen, idx)); idx += 1
    draws = 1 if quick else 3
    for t in temps:
        for d in range(draws):
            n = rng.choice([2, 2, 3]) if quick else [2, 3, 4][d % 3]
            jobs.append(run_one(ctx, t, n, "subsets", idx)); idx += 1
        # empty result file
        j = run_one(ctx, t, 2, "subsets", idx); idx += 1
        j["scenario"] = "empty_result_file"
        j["entries"] = []
        for info in j["files"].values():
            info["expected"], info["site_key"] = [], {}
        S.write_result_file(j["rf"], t.tool, [])
        jobs.append(j)
    with ThreadPoolExecutor(max_workers=12) as ex:
        jobs = list(ex.map(exec_job, jobs))
    ctx.cli_runs += len(jobs)

    cases, meta = [], []
    for job in jobs:
        t = job["t"]
        ctx.count(f"e2e:codemod:{t.id}")
        ctx.count(f"e2e:scenario:{job['scenario']}")
        if job["rc"] != 0:
            ctx.violation("kf_cli_failed", f"{t.id}: the CLI exited with {job['rc']} on a generated project: {job['stderr'][-300:]}",
                          replay_payload(job))
            continue
        o = observe(t, job["proj"], job["files"], job["report"])
        if o["failed"] or o["unfixed"]:
            ctx.violation("kf_unexpected_failure", f"{t.id}: failedFiles={o['failed']} unfixedFindings={o['unfixed']} on a well-formed project",
                          replay_payload(job))
        for fn, info in job["files"].items():
            of = o["files"][fn]
            ctx.count(f"e2e:subset_size:{len(info['expected'])}of{len(info['sites'])}")
            ctx.count("e2e:file_location:" + ("default_excluded_path" if not fn.startswith("pkg") else "ordinary"))
            cases.append(e2e_case_term(ctx, t, fn, info, job["entries"], of))
            meta.append((job, fn, info, of))
            k = len(info["expected"])
            ctx.case({"codemod": t.id, "file": fn, "S": info["expected"], "rewritten": of["rewritten"], "changes": of["changes"]},
                     nontrivial_key=("e2e", t.id, info["src"], tuple(info["expected"])) if 0 < k < len(info["sites"]) or k else None,
                     sample=0 < k < len(info["sites"]))
            # Python-side spec checks that need the identities of findings
            rules_ok = all(r == t.rule for c in of["changes"] for r in c[2])
            if not rules_ok:
                ctx.violation("kf_foreign_finding", f"{t.id} {fn}: a change entry carries a finding of another rule: {of['changes']}",
                              {**replay_payload(job, fn), "observed": of, "expected": f"only findings of {t.rule}"})
            if not info["expected"] and of["changed"]:
                ctx.violation("kf_site_selection", f"{t.id} {fn}: no site reported for this file but the file changed",
                              {**replay_payload(job, fn), "observed": of, "expected": "file untouched"})
            if t.tool in ("defectdojo", "sonar"):
                lines = [info["sites"][i]["line"] for i in info["expected"]]
                if len(set(lines)) == len(lines) and set(of["rewritten"]) == set(info["expected"]):
                    want = sorted((info["sites"][i]["line"], [str(info["site_key"][i])]) for i in info["expected"])
                    got = sorted((c[0], c[1]) for c in of["changes"] if c[0] in lines)
                    if want != got and all(len(c[1]) == 1 for c in of["changes"] if c[0] in lines):
                        # the class predicts: every entry at a site line carries exactly the rule id
                        cls = "kf_finding_id_is_rule_id" if t.tool == "sonar" and all(
                            c[1] == [t.rule] for c in of["changes"] if c[0] in lines) and \
                            (ctx.tables or {}).get("sonar_finding_id") == "IdIsRuleId" else "kf_change_findings"
                        ctx.violation(cls, f"{t.id} {fn}: change entries {got} do not carry the reported findings {want} "
                                           f"(the id in the report is not the finding's key)",
                                      {**replay_payload(job, fn), "observed": got, "expected": want})
    bad = core.eval_bad_indices(ctx, "c06_e2e", IMPORTS, "e2e_case", cases,
                                ["e2e_model_ok", "e2e_sites_ok", "e2e_entries_ok", "e2e_discipline_ok"], chunk=60)
    model_bad = set(bad["e2e_model_ok"])
    for i in bad["e2e_discipline_ok"]:
        job, fn, info, of = meta[i]
        ctx.count("e2e:discipline_false")
        if job["scenario"] not in ("subsets", "empty_result_file") or any(s.get("wrapped") for s in info["sites"].values()):
            continue  # same-line witnesses / a reported call nested in a call: the hypothesis fails, the theorem predicts nothing
        ctx.mismatch("span discipline (hypothesis of C06_subset_exact)",
                     f"{job['t'].id} {fn}: two candidate nodes of the generated program are not separated", replay_payload(job, fn))
    for i in bad["e2e_model_ok"]:
        job, fn, info, of = meta[i]
        ctx.mismatch("real CLI vs Model.Location (selection of sites, change entries)",
                     f"{job['t'].id} {fn} S={info['expected']}: rewritten={of['rewritten']} changes={of['changes']} differ from the model",
                     {**replay_payload(job, fn), "observed": of})
    for i in bad["e2e_sites_ok"]:
        job, fn, info, of = meta[i]
        ctx.violation(classify_sites(job["t"], info, of, i not in model_bad),
                      f"{job['t'].id} {fn}: sites reported S={info['expected']} but rewritten={of['rewritten']} (scenario {job['scenario']})",
                      {**replay_payload(job, fn), "observed": of, "expected": {"rewritten": info["expected"]}})
    for i in bad["e2e_entries_ok"]:
        job, fn, info, of = meta[i]
        ctx.violation(classify_findings(job["t"], info, of, job["entries"], fn, i not in model_bad),
                      f"{job['t'].id} {fn}: S={info['expected']} site lines {[info['sites'][k]['line'] for k in sorted(info['sites'])]} change "
                      f"entries {[(c[0], c[1]) for c in of['changes']]}: every entry that carries findings must carry exactly one and sit "
                      f"on the line of a rewritten site (one per site); every rewritten site must have one (scenario {job['scenario']})",
                      {**replay_payload(job, fn), "observed": of, "expected": "one finding per entry: the one reported for that site"})
    for job in jobs:
        shutil.rmtree(job["root"], ignore_errors=True)


# ------------------------------------------------------------------------------------------------
# (3) CodeQL: the SARIF reader's locations and a CodeQL-driven codemod, in process
# ------------------------------------------------------------------------------------------------
CODEQL_RULE = "py/insecure-randomness"


def codeql_sarif(codeql_results, foreign_results):
    def res(e):
        loc = {"physicalLocation": {"artifactLocation": {"uri": e["file"], "uriBaseId": "%SRCROOT%"}}}
        if e.get("region") is not None:
            loc["physicalLocation"]["region"] = e["region"]
        return {"ruleId": e["rule"], "message": {"text": "m"}, "locations": [loc]}
    return {"version": "2.1.0", "runs": [
        {"tool": {"driver": {"name": "Semgrep OSS"}}, "results": [res(e) for e in foreign_results]},
        {"tool": {"driver": {"name": "CodeQL", "semanticVersion": "2.15", "rules": []}}, "results": [res(e) for e in codeql_results]}]}


def region_of(loc, drop_end_line=True, drop_start_column=False):
    rg = {"startLine": loc[0], "startColumn": loc[1], "endLine": loc[2], "endColumn": loc[3]}
    if drop_end_line and loc[0] == loc[2]:
        del rg["endLine"]           # CodeQL omits endLine when the region is on one line
    if drop_start_column:
        del rg["startColumn"]       # ... and startColumn when it is 1
    return rg


def run_codeql(ctx):
    import dataclasses
    rng = ctx.rng
    from codemodder.codemods.base_codemod import Metadata, ReviewGuidance, ToolMetadata, ToolRule
    from codemodder.codemods.codeql import CodeQLSarifFileDetector
    from codemodder.codeql import CodeQLLocation, CodeQLResultSet
    from codemodder.context import CodemodExecutionContext
    from codemodder.project_analysis.python_repo_manager import PythonRepoManager
    from codemodder.providers import load_providers
    from codemodder.registry import load_registered_codemods
    from codemodder.sarifs import detect_sarif_tools
    from core_codemods.api.core_codemod import SASTCodemod
    from core_codemods.secure_random import SecureRandom

    registry = load_registered_codemods()
    n_codeql = sum(1 for c in registry.codemods if c.id.startswith("codeql:"))
    ctx.count("registry:codeql_codemods", n_codeql)
    if n_codeql:
        ctx.mismatch("C06 end-to-end coverage", f"the registry now holds {n_codeql} codeql:* codemods; they have no site template", {"op": "coverage"})
    else:
        ctx.notes.append("the registry holds no codeql:* codemod (only the SARIF detector and reader exist): the CodeQL path is driven in "
                         "process by a codemod built with the public constructors (SASTCodemod + CodeQLSarifFileDetector + the real "
                         "secure-random transformer), not through the CLI")

    # (a) CodeQLLocation.from_sarif on generated regions
    cases, meta = [], []
    for i in range(150 if ctx.quick() else 1500):
        if rng.random() < 0.1:
            rg = None
        else:
            sl = rng.randint(0, 9)
            rg = {"startLine": sl}
            if rng.random() < 0.75:
                rg["startColumn"] = rng.randint(1, 30)
            if rng.random() < 0.5:
                rg["endLine"] = sl + rng.randint(0, 2)
            if rng.random() < 0.8:
                rg["endColumn"] = rng.randint(1, 40)
        sl_ = {"physicalLocation": {"artifactLocation": {"uri": "a.py"}}}
        if rg is not None:
            sl_["physicalLocation"]["region"] = rg
        L = CodeQLLocation.from_sarif(sl_)
        vals = (L.start.line, L.start.column, L.end.line, L.end.column)
        obs = None if any(v is None for v in vals) else vals
        c_rg = "None" if rg is None else "(Some (mkregion %s %s %s %s))" % (
            cZ(rg["startLine"]), copt(cZ(rg["startColumn"]) if "startColumn" in rg else None, "Z"),
            copt(cZ(rg["endLine"]) if "endLine" in rg else None, "Z"), copt(cZ(rg["endColumn"]) if "endColumn" in rg else None, "Z"))
        cases.append(cpair(c_rg, copt(None if obs is None else cpair(cZ(obs[0]), cZ(obs[1]), cpair(cZ(obs[2]), cZ(obs[3]))), "Z * Z * (Z * Z)")))
        meta.append((rg, vals))
        ctx.count("codeql_region:" + ("none" if rg is None else "+".join(sorted(k for k in rg if k != "startLine")) or "startLine only"))
        ctx.case({"codeql_region": [rg, vals]}, nontrivial_key=("cq", json.dumps(rg, sort_keys=True)) if rg else None)
    bad = core.eval_bad_indices(ctx, "c06_cq", IMPORTS, "cq_case", cases, ["cq_model_ok", "cq_spec_ok"])
    for i in bad["cq_model_ok"]:
        ctx.mismatch("CodeQLLocation.from_sarif vs Model.Location.codeql_loc", f"region {meta[i][0]} -> {meta[i][1]}", {"op": "codeql_region", "case": meta[i]})
    if bad["cq_spec_ok"]:
        rg, vals = meta[bad["cq_spec_ok"][0]]
        ctx.violation("kf_codeql_missing_start_column", f"CodeQLLocation.from_sarif gives a location with a None column for the region {rg} "
                      f"(SARIF: startColumn defaults to 1): {vals}", {"op": "codeql_region", "region": rg, "observed": vals,
                                                                   "expected": "start column 1", "theorem": "C06_codeql_location"})

    # (b) a CodeQL-driven codemod over all subsets of sites, a foreign run in the same file, a result without region
    base_t = [t for t in S.TEMPLATES if t.id == "sonar:python/secure-random"][0]
    t = dataclasses.replace(base_t, id="codeql:python/secure-random", tool="semgrep", rule=CODEQL_RULE)

    class CodeQLCodemod(SASTCodemod):
        @property
        def origin(self):
            return "codeql"

    def make_codemod():
        return CodeQLCodemod(metadata=Metadata(name="secure-random", summary="s", review_guidance=ReviewGuidance.MERGE_AFTER_REVIEW, description="d",
                                               tool=ToolMetadata(name="CodeQL", rules=[ToolRule(id=CODEQL_RULE, name=CODEQL_RULE)])),
                             transformer=SecureRandom.transformer, detector=CodeQLSarifFileDetector(), requested_rules=[CODEQL_RULE])

    def apply(proj, sarif_path):
        m = detect_sarif_tools([sarif_path])
        cm = make_codemod()
        cx = CodemodExecutionContext(proj, False, False, registry, load_providers(), PythonRepoManager(proj), [], [], dict(m), 1)
        cm.apply(cx)
        r = cx.compile_results([cm])[0]
        return dict(m), {"results": [json.loads(r.model_dump_json())]}

    cases, meta = [], []
    for rnd in range(2 if ctx.quick() else 6):
        n = rng.choice([2, 3])
        root = ctx.scratch / f"codeql_{rnd}"
        proj = root / "proj"
        proj.mkdir(parents=True)
        files, entries = build_project(ctx, t, n, proj, "subsets")
        cq, foreign = [], []
        for e in entries:
            (cq if True else foreign).append({**e, "region": region_of(e["loc"])})
        for fn, info in files.items():
            for i in info["sites"]:
                if i not in info["expected"] and rng.random() < 0.7:
                    # the same rule, the same site, but in a run of another tool: must not drive the CodeQL codemod
                    loc = S.tool_location("semgrep", info["sites"][i]["reported"])
                    foreign.append({"rule": CODEQL_RULE, "file": fn, "region": region_of(loc, drop_end_line=False)})
            if rng.random() < 0.5:
                cq.append({"key": "whole-file", "rule": CODEQL_RULE, "file": fn, "region": None, "loc": (0, -1, 0, -1)})
        rng.shuffle(cq)
        sf = root / f"results_{ctx.seed}_{rnd}.sarif"
        sf.write_text(json.dumps(codeql_sarif(cq, foreign)))
        tools, report = apply(proj, sf)
        if sorted(tools) != ["codeql", "semgrep"]:
            ctx.mismatch("detect_sarif_tools", f"a SARIF file with a Semgrep run and a CodeQL run was attributed to {sorted(tools)}", {"op": "codeql"})
        # what the real reader files for the CodeQL run: the model's results are built from these locations
        rsq = CodeQLResultSet.from_sarif(sf)
        read = [(r.rule_id, str(l.file), (l.start.line, l.start.column, l.end.line, l.end.column)) for d in rsq.values() for rs_ in d.values()
                for r in rs_ for l in r.locations]
        want = sorted((e["rule"], e["file"], tuple(e["loc"])) for e in cq)
        if sorted(read) != want:
            ctx.mismatch("CodeQLResultSet.from_sarif", f"the reader filed {sorted(read)[:4]}..., the CodeQL run holds {want[:4]}...", {"op": "codeql"})
        o = observe(t, proj, files, report)
        job = {"t": t, "n": n, "scenario": "codeql", "root": root, "proj": proj, "files": files, "entries": cq, "rf": sf}
        if o["failed"] or o["unfixed"]:
            ctx.violation("kf_unexpected_failure", f"CodeQL-driven secure-random: failedFiles={o['failed']} unfixed={o['unfixed']}", replay_payload(job))
        for fn, info in files.items():
            of = o["files"][fn]
            cases.append(e2e_case_term(ctx, t, fn, info, cq, of))
            meta.append((job, fn, info, of))
            ctx.count(f"codeql_e2e:subset_size:{len(info['expected'])}of{len(info['sites'])}")
            k = len(info["expected"])
            ctx.case({"codeql": fn, "S": info["expected"], "rewritten": of["rewritten"], "changes": of["changes"]},
                     nontrivial_key=("codeql", info["src"], tuple(info["expected"])) if k else None, sample=0 < k < len(info["sites"]))
    bad = core.eval_bad_indices(ctx, "c06_cqe2e", IMPORTS, "e2e_case", cases, ["e2e_model_ok", "e2e_sites_ok", "e2e_entries_ok", "e2e_discipline_ok"], chunk=60)
    model_bad = set(bad["e2e_model_ok"])
    for name, cls in (("e2e_model_ok", None), ("e2e_discipline_ok", None), ("e2e_sites_ok", "kf_site_selection"), ("e2e_entries_ok", "kf_change_findings")):
        for i in bad[name]:
            job, fn, info, of = meta[i]
            what = f"CodeQL-driven secure-random {fn}: S={info['expected']} rewritten={of['rewritten']} changes={[(c[0], c[1]) for c in of['changes']]}"
            if cls is None:
                ctx.mismatch(f"CodeQL-driven codemod vs Model.Location ({name})", what, {**replay_payload(job, fn), "observed": of})
            else:
                ctx.violation(cls, what + " (a foreign run, a foreign rule and a result without region must not change anything)",
                              {**replay_payload(job, fn), "observed": of})

    # (c) a region as CodeQL writes it for column 1: no startColumn
    root = ctx.scratch / "codeql_nosc"
    proj = root / "proj"
    proj.mkdir(parents=True)
    src = "import random\nrandom.randint(0, 1)\nv2 = random.random()\n"
    (proj / "a.py").write_text(src)
    sf = root / f"nosc_{ctx.seed}.sarif"
    sf.write_text(json.dumps(codeql_sarif([{"rule": CODEQL_RULE, "file": "a.py", "region": {"startLine": 2, "endColumn": 21}}], [])))
    _, report = apply(proj, sf)
    after = (proj / "a.py").read_text()
    res = report["results"][0]
    fixed = "secrets.SystemRandom().randint(0, 1)" in after and "v2 = random.random()" in after
    ctx.case({"codeql_no_start_column": {"failed": res.get("failedFiles"), "after": after}}, nontrivial_key=("codeql_nosc",))
    predicted_fixed = (ctx.tables or {}).get("codeql_start_column") == "ScOne"
    if fixed != predicted_fixed:
        ctx.mismatch("CodeQL region without startColumn vs Model.Location.codeql_loc", f"table says {(ctx.tables or {}).get('codeql_start_column')}, "
                     f"site fixed={fixed}, failedFiles={res.get('failedFiles')}", {"op": "codeql_nosc"})
    if not fixed:
        ctx.violation("kf_codeql_missing_start_column",
                      f"a CodeQL result whose region has no startColumn (column 1: `random.randint(0, 1)` at the start of line 2): the reported site is "
                      f"not rewritten; failedFiles={res.get('failedFiles')} unfixedFindings={[(u.get('lineNumber'), u.get('reason')) for u in res.get('unfixedFindings') or []]} "
                      f"(TypeError: None - 1 in Result.match_location)",
                      {"op": "codeql_nosc", "project": core.b64tree({"a.py": src}), "sarif": json.loads(sf.read_text()),
                       "expected": "line 2 rewritten, one change entry at line 2 with the finding", "theorem": "C06_codeql_location"})


def run(ctx: core.Ctx):
    run_pure(ctx)
    run_codeql(ctx)
    run_e2e(ctx)


def replay(ctx, body):
    op = body.get("op")
    if op in ("match_location", "match_location_pair"):
        I = impl()
        r = body["result"]
        r["locs"] = [(f, tuple(l)) for f, l in r["locs"]]
        R, nd = mk_real_result(I, r), mk_real_node(I, body["kind"])
        now = [bool(R.match_location(mk_range(I, tuple(body["span"])), nd))]
        if "span2" in body:
            now.append(bool(R.match_location(mk_range(I, tuple(body["span2"])), nd)))
        print("observed now:", now, "| recorded:", body.get("observed"), "| expected:", body.get("expected"))
        return 0
    if op == "e2e":
        job = exec_job(job_from_payload(ctx, body, 0))
        print("rc:", job["rc"])
        o = observe(job["t"], job["proj"], job["files"], job["report"])
        for fn, info in job["files"].items():
            print(fn, "S =", info["expected"], "| rewritten now:", o["files"][fn]["rewritten"], "| changes now:",
                  [(c[0], c[1]) for c in o["files"][fn]["changes"]])
        print("recorded observation:", body.get("observed"), "| expected:", body.get("expected"))
        return 0
    if op in ("codeql_nosc", "codeql_region"):
        from codemodder.codeql import CodeQLLocation
        rg = body.get("region") or {"startLine": 2, "endColumn": 21}
        L = CodeQLLocation.from_sarif({"physicalLocation": {"artifactLocation": {"uri": "a.py"}, "region": rg}})
        print("CodeQLLocation.from_sarif now:", (L.start.line, L.start.column, L.end.line, L.end.column), "| expected:", body.get("expected"))
        return 0
    print(json.dumps(body, indent=1)[:3000])
    return 0
