from functools import cache
from typing import Sequence

import libcst as cst


@cache
def list_subclasses(base_kls) -> set[str]:
    all_subclasses = set()
    stack = [base_kls]
    while stack:
        kls = stack.pop()
        all_subclasses.add(kls)
        stack.extend(kls.__subclasses__())
    return all_subclasses


def full_qualified_name_from_class(cls) -> str:
    return f"{cls.__module__}.{cls.__qualname__}"


def clean_simplestring(node: cst.SimpleString | str) -> str:
    if isinstance(node, str):
        return node.strip('"')
    return node.raw_value


def true_value(node: cst.Name | cst.SimpleString) -> str | int | bool:
    match node:
        case cst.SimpleString():
            return clean_simplestring(node)
        case cst.Name():
            val = node.value
            if val.lower() == "true":
                return True
            elif val.lower() == "false":
                return False
            return val
    return ""


def extract_targets_of_assignment(
    assignment: cst.AnnAssign | cst.Assign | cst.WithItem | cst.NamedExpr,
) -> list[cst.BaseExpression]:
    match assignment:
        case cst.AnnAssign():
            if assignment.target:
                return [assignment.target]
        case cst.Assign():
            return [t.target for t in assignment.targets]
        case cst.NamedExpr():
            return [assignment.target]
        case cst.WithItem():
            if assignment.asname:
                return [assignment.asname.name]
    return []


def positional_to_keyword(
    args: Sequence[cst.Arg], pos_to_keyword: list[str | None]
) -> list[cst.Arg]:
    """
    Given a sequence of Args, converts all the positional arguments into keyword arguments according to a given map.
    """
    new_args = []
    for i, arg in enumerate(args):
        if arg.keyword is None and pos_to_keyword[i] is not None:
            new_args.append(arg.with_changes(keyword=cst.Name(pos_to_keyword[i])))
        else:
            new_args.append(arg)
    return new_args


def is_empty_string_literal(node) -> bool:
    match node:
        case cst.SimpleString() if node.raw_value == "":
            return True
        case cst.FormattedString() if not node.parts:
            return True
    return False


def is_empty_sequence_literal(expr: cst.BaseExpression) -> bool:
    match expr:
        case cst.Dict() | cst.Tuple() if not expr.elements:
            return True
    return False
