(** C05 — exactly the files selected by the include/exclude patterns are touched.

    Full statement: for every directory tree T (nested dirs, test/build/venv dirs, non-Python files, symlinked
    files and dirs) and all include/exclude pattern lists (with and without `:line`), the set of files a
    find-and-fix codemod changes is { f regular file of T, not reached through a link : f has a fixable construct,
    f's target-relative path matches an include pattern (default: Python files) and no file-level exclude pattern
    (default: test/build/venv/VCS directories) }; SAST-driven codemods use the user's patterns without the default
    excludes; `path:line` patterns never exclude a whole file; nothing outside the target is written.

    What is proved here (for all inputs): the selection logic — glob matcher = declarative glob semantics
    ([gmatch_Matches], used throughout), [match_files] = the per-file predicate [Selected], sortedness/no duplicates,
    independence from pattern order, `:line` patterns, the `None` sentinels of context.py, the SAST path, the
    meaning of the default lists, and the lifting to a tree (only regular, non-link files of the tree are ever
    selected or written) with the per-file transformer as an explicit function [changed].
    What is an oracle (tested by harness/c05.py, not proved): that `Path.rglob("*")` / `is_file` / `is_symlink`
    behave like [files_for_directory] on a [tree]; that CPython's `fnmatch` is [fnmatch] (differentially tested);
    that the transformer writes only the file it is given (observed through the outside tree's hash).

    The whole-run statement [C05_writes_subset] is about Model/Run.v's [run]: every path whose content a run changes is
    a regular file of the tree in the selection of one of the codemods, OR THE PATH OF A DEPENDENCY MANIFEST (the
    package stores) - the property text has no such exception, it is made explicit here and judged by the
    correspondence: [C05_manifest_candidates] says, for the variant of the source read by the translator, which
    manifests those are (pinned tree: also symlinked ones, also excluded ones - refuted by witness; repaired: regular
    files of the tree that no file-level exclude pattern matches).  That a manifest matching no INCLUDE pattern is
    updated at all is intended behaviour the property text does not allow for: listed finding
    kf_c05_manifest_written_not_included.
    Table-indexed statements: [C05_defaults] (Tables.ff_exclude_sentinel), [C05_manifest_candidates] and
    [C05_nothing_outside_tree_written] (Tables.manifest_locations / manifest_exclusion). *)
From Coq Require Import Strings.String.
From CM Require Import Base.GlobLit Base.Types_Glob Model.Glob Spec.GlobSpec Spec.GlobDefaults Proofs.GlobFacts Generated.Tables.
From CM Require Model.Run Proofs.RunWritesFacts.

Definition defaults : list str * list str := (default_included_paths, default_excluded_paths).

(** ** match_files selects exactly the [Selected] files of its input *)
Theorem C05_match_files_char : forall defs rels exc inc f,
  In f (match_files defs rels exc inc) <->
  In f rels /\ Selected (or_default inc (fst defs)) (or_default exc (snd defs)) f.
Proof. exact In_match_files. Qed.
Print Assumptions C05_match_files_char.

Theorem C05_sorted_nodup : forall defs rels exc inc,
  StronglySorted str_lt (match_files defs rels exc inc) /\ List.NoDup (match_files defs rels exc inc).
Proof. intros. split; [apply match_files_Sorted | apply StronglySorted_NoDup, match_files_Sorted]. Qed.
Print Assumptions C05_sorted_nodup.

(** The result depends only on the *sets* of input paths and patterns (order, repetitions are irrelevant:
    registry.default_include_paths is built from a Python set). *)
Theorem C05_pattern_order_irrelevant : forall defs rels rels' exc exc' inc inc',
  (forall f, In f rels <-> In f rels') -> (forall p, In p exc <-> In p exc') -> (forall p, In p inc <-> In p inc') ->
  match_files defs rels (Some exc) (Some inc) = match_files defs rels' (Some exc') (Some inc').
Proof.
  intros defs rels rels' exc exc' inc inc' Hr He Hi. apply match_files_ext. intros f.
  rewrite !In_match_files. simpl. unfold Selected. rewrite Hr.
  split; intros [H1 [[p [Hp Hm]] Hn]]; (split; [exact H1 |]); split.
  - exists p. split; [apply Hi; exact Hp | exact Hm].
  - intros [q [Hq Hq']]. apply Hn. exists q. split; [apply He; exact Hq | exact Hq'].
  - exists p. split; [apply Hi; exact Hp | exact Hm].
  - intros [q [Hq Hq']]. apply Hn. exists q. split; [apply He; exact Hq | exact Hq'].
Qed.
Print Assumptions C05_pattern_order_irrelevant.

(** ** `path:line` patterns never exclude a whole file; as include patterns they select the file `path` selects *)
Theorem C05_line_patterns_never_exclude_file : forall defs rels exc inc,
  match_files defs rels (Some exc) inc
    = match_files defs rels (Some (List.filter (fun x => negb (has_colon x)) exc)) inc
  /\ ((forall p, In p exc -> has_colon p = true) ->
      match_files defs rels (Some exc) inc = match_files defs rels (Some []) inc)
  /\ (forall incl, match_files defs rels (Some exc) (Some incl)
                   = match_files defs rels (Some exc) (Some (map before_colon incl))).
Proof.
  intros defs rels exc inc. split; [| split].
  - unfold match_files, filter_files. simpl or_default. rewrite file_patterns_exc_idem. reflexivity.
  - intros Hall. unfold match_files, filter_files. simpl or_default. simpl file_patterns.
    rewrite (filter_all_false (fun x => negb (has_colon x)) exc); [reflexivity |].
    intros x Hx. rewrite (Hall x Hx). reflexivity.
  - intros incl. unfold match_files, filter_files. simpl or_default. rewrite file_patterns_inc_idem. reflexivity.
Qed.
Print Assumptions C05_line_patterns_never_exclude_file.

(** ** The sentinels of context.py.  What the property demands of a find-and-fix run: the user's include list, else the
    default one; the user's FILE-LEVEL exclude patterns, else the default ones (`path:line` patterns never act at file
    level, so a list holding only such patterns leaves the defaults in force). *)
Definition FFSpec (DI DE rels exc inc : list str) (f : str) : Prop :=
  In f rels /\ Selected (or_default (or_none inc) DI) (or_default (or_none (file_level exc)) DE) f.

Definition w_line_only_exclude : list str := [lit "a.py:2"].
Definition w_default_excluded_file : str := lit "tests/c.py".

Definition C05_defaults_statement (v : exclude_sentinel_form) : Prop :=
  match v with
  | FileLevelOrNone =>
      forall DI DE rels exc inc f, In f (find_and_fix_paths v (DI, DE) rels exc inc) <-> FFSpec DI DE rels exc inc f
  | RawOrNone =>
      (* `--path-exclude a.py:2` switches the default excludes off: tests/c.py is selected *)
      exists DI DE rels exc inc f, In f (find_and_fix_paths v (DI, DE) rels exc inc) /\ ~ FFSpec DI DE rels exc inc f
  end.
Lemma C05_defaults_all v : C05_defaults_statement v.
Proof.
  destruct v; simpl.
  - exists pinned_included, pinned_excluded, [w_default_excluded_file], w_line_only_exclude, [], w_default_excluded_file.
    split; [vm_compute; left; reflexivity |].
    intros [_ H]. apply selectedb_Selected in H. vm_compute in H. discriminate.
  - intros DI DE rels exc inc f. rewrite In_find_and_fix_paths. reflexivity.
Qed.
Theorem C05_defaults : C05_defaults_statement ff_exclude_sentinel.
Proof. exact (C05_defaults_all ff_exclude_sentinel). Qed.
Print Assumptions C05_defaults.

(** Whatever the variant: what is selected is Selected by the lists that variant puts in force (no third behaviour). *)
Theorem C05_defaults_either_variant : forall v DI DE rels exc inc f,
  In f (find_and_fix_paths v (DI, DE) rels exc inc) <->
  In f rels /\ Selected (or_default (or_none inc) DI) (or_default (exclude_sentinel v exc) DE) f.
Proof. intros. apply In_find_and_fix_paths. Qed.
Print Assumptions C05_defaults_either_variant.

(** SAST-driven: the user's excludes as they are, never the default excludes; includes default to the registry's *)
Theorem C05_sast_no_default_excludes :
  (forall defs regdef paths exc inc f,
        In f (filter_paths defs regdef paths exc inc) <-> In f paths /\ Selected (included_paths inc regdef) exc f)
  /\ (forall defs regdef paths f,
        In f (filter_paths defs regdef paths [] []) <->
        In f paths /\ exists p, In p regdef /\ GlobMatches (before_colon p) f).
Proof.
  split.
  - intros defs regdef paths exc inc f. unfold filter_paths. rewrite In_match_files. reflexivity.
  - intros defs regdef paths f. unfold filter_paths. rewrite In_match_files. simpl. unfold Selected. split.
    + intros [Hr [Hinc _]]. split; [exact Hr | exact Hinc].
    + intros [Hr Hinc]. split; [exact Hr |]. split; [exact Hinc |]. intros [p [[] _]].
Qed.
Print Assumptions C05_sast_no_default_excludes.

(** ** What the default lists mean (stated for the lists of the pinned tree; the premise is checked by the harness
    against the generated tables, so a change of the lists is reported instead of silently weakening this). *)
Definition C05_default_lists_statement (DI DE : list str) : Prop :=
  DI = pinned_included -> DE = pinned_excluded ->
  forall s,
    ((exists p, In p DI /\ GlobMatches (before_colon p) s) <-> exists r, s = r ++ lit ".py")
    /\ ((exists p, In p DE /\ has_colon p = false /\ GlobMatches p s)
        <-> Exists (fun sh => shape_holds sh s) pinned_excluded_shapes).
Lemma C05_default_lists_all DI DE : C05_default_lists_statement DI DE.
Proof.
  intros -> -> s. split.
  - split.
    + intros [p [Hp Hm]]. destruct Hp as [<- | [<- | []]].
      * apply (Matches_suffix (lit ".py")). exact Hm.
      * apply (Matches_star_slash_star_suffix (lit ".py")). exact Hm.
    + intros Hs. exists (lit "**.py"). split; [left; reflexivity |]. apply (Matches_suffix (lit ".py")). exact Hs.
  - assert (Hshapes : map parse_pat pinned_excluded = map shape_items pinned_excluded_shapes) by (vm_compute; reflexivity).
    rewrite <- (shapes_char pinned_excluded pinned_excluded_shapes s Hshapes). rewrite existsb_exists. split.
    + intros [p [Hp [_ Hm]]]. exists p. split; [exact Hp | apply fnmatch_GlobMatches; exact Hm].
    + intros [p [Hp Hm]]. exists p. split; [exact Hp |]. split; [| apply fnmatch_GlobMatches; exact Hm].
      clear Hm. revert p Hp. apply Forall_forall. vm_compute. repeat constructor.
Qed.
Theorem C05_default_lists_char : C05_default_lists_statement default_included_paths default_excluded_paths.
Proof. exact (C05_default_lists_all default_included_paths default_excluded_paths). Qed.
Print Assumptions C05_default_lists_char.
(** The premises hold of the lists extracted from the current source (if DEFAULT_*_PATHS change this stops checking,
    and harness/c05.py searches with witness paths for the patterns that were added or removed). *)
Example C05_default_lists_premises_hold_on_generated_tables :
  default_included_paths = pinned_included /\ default_excluded_paths = pinned_excluded.
Proof. split; reflexivity. Qed.

(** ** Lifting to a tree: only regular files of the tree (never a link, never something behind a link) are selected;
    the selected files on which the transformer reports a change are exactly ... *)
Theorem C05_no_symlink_selected : forall v defs exts t exc inc f,
  In f (ff_files_to_analyze v defs exts (files_for_directory t) exc inc) -> In (f, NFile) t.
Proof.
  intros v defs exts t exc inc f H. apply In_ff_files_to_analyze in H. destruct H as [H _].
  apply In_find_and_fix_paths in H. destruct H as [H _]. apply In_files_for_directory. exact H.
Qed.
Print Assumptions C05_no_symlink_selected.

Definition selected_changed (v : exclude_sentinel_form) (defs : list str * list str) (exts : list str) (t : tree)
           (exc inc : list str) (changed : str -> bool) : list str :=
  List.filter changed (ff_files_to_analyze v defs exts (files_for_directory t) exc inc).

Theorem C05_selected_changed_char : forall v defs exts t exc inc changed f,
  In f (selected_changed v defs exts t exc inc changed) <->
  In (f, NFile) t
  /\ Selected (or_default (or_none inc) (fst defs)) (or_default (exclude_sentinel v exc) (snd defs)) f
  /\ (exts <> [] -> mem_str (suffix_of f) exts = true)
  /\ changed f = true.
Proof.
  intros. unfold selected_changed. rewrite filter_In, In_ff_files_to_analyze, In_find_and_fix_paths, In_files_for_directory. tauto.
Qed.
Print Assumptions C05_selected_changed_char.

(** ** The whole run (Model/Run.v).  The configuration is the one context.py computes from the tree and the patterns;
    everything else of the run (pipelines, transformers, detectors, writers, the codemod list, the initial file
    system, the package stores) is arbitrary.  A path whose content the run changes is
      - a regular file of the tree accepted by [fsel K] for some codemod K of the run, and, when K is a find-and-fix
        codemod, Selected by the lists in force; or
      - the manifest exception: the path of one of the package stores. *)
Theorem C05_writes_subset :
  forall v tb (tr : Type) parse code T S R diff W fsel dry scan t exc inc Ks fs stores p,
  let cfg := {| Run.dry_run := dry; Run.all_files := files_for_directory t;
                Run.ff_paths := find_and_fix_paths v defaults (files_for_directory t) exc inc; Run.scan_all := scan |} in
  Run.lookup (Run.final_fs (Run.run tb tr parse code T S R diff W fsel cfg Ks fs stores)) p <> Run.lookup fs p ->
  (In (p, NFile) t /\ exists K, In K Ks /\ fsel K p = true /\
     (Run.cbase K = Run.FindAndFix ->
      Selected (or_default (or_none inc) default_included_paths) (or_default (exclude_sentinel v exc) default_excluded_paths) p))
  \/ (exists st, In st stores /\ Run.st_path st = p).
Proof.
  intros v tb tr parse code T S R diff W fsel dry scan t exc inc Ks fs stores p cfg Hne.
  apply RunWritesFacts.run_frame in Hne. destruct Hne as [[K [HK Hin]] | Hst]; [left | right; exact Hst].
  unfold RunWritesFacts.scope in Hin. apply filter_In in Hin. destruct Hin as [Hin Hsel].
  destruct (Run.cbase K) eqn:Eb; simpl in Hin.
  - apply In_find_and_fix_paths in Hin. destruct Hin as [Hf Hs]. split; [apply In_files_for_directory; exact Hf |].
    exists K. split; [exact HK | split; [exact Hsel | intros _; exact Hs]].
  - split; [apply In_files_for_directory; exact Hin |]. exists K. split; [exact HK | split; [exact Hsel | intros Hc; rewrite Eb in Hc; discriminate Hc]].
Qed.
Print Assumptions C05_writes_subset.

(** ** Which manifests the package stores are *)
Definition w_link_tree : tree := [(lit "requirements.txt", NLinkFile); (lit "a.py", NFile)].
Definition w_venv_tree : tree := [(lit "venv", NDir); (lit "venv/requirements.txt", NFile); (lit "a.py", NFile)].

Definition ManifestOK (defs : list str * list str) (t : tree) (exc : list str) (m : str) : Prop :=
  In (m, NFile) t /\
  ~ (exists p, In p (or_default (or_none (file_level exc)) (snd defs)) /\ has_colon p = false /\ GlobMatches p m).

Definition C05_manifest_statement (lf : manifest_loc_form) (ef : manifest_excl_form) : Prop :=
  match lf, ef with
  | SkipSymlinks, FileLevelExcludes =>
      forall defs t exc m, In m (manifest_candidates lf ef defs t exc) -> ManifestOK defs t exc m
  | _, _ => exists t exc m, In m (manifest_candidates lf ef pinned_defaults t exc) /\ ~ ManifestOK pinned_defaults t exc m
  end.
Lemma C05_manifest_all lf ef : C05_manifest_statement lf ef.
Proof.
  destruct lf, ef; cbv beta iota delta [C05_manifest_statement].
  - exists w_link_tree, [], (lit "requirements.txt"). split; [vm_compute; left; reflexivity |].
    intros [[H | [H | []]] _]; discriminate.
  - exists w_link_tree, [], (lit "requirements.txt"). split; [vm_compute; left; reflexivity |].
    intros [[H | [H | []]] _]; discriminate.
  - exists w_venv_tree, [], (lit "venv/requirements.txt"). split; [vm_compute; left; reflexivity |].
    intros [_ H]. apply H. exists (lit "venv/**"). split; [vm_compute; tauto |]. split; [reflexivity |].
    apply fnmatch_GlobMatches. vm_compute. reflexivity.
  - intros defs t exc m H. split.
    + destruct (In_manifest_candidates_named _ _ _ _ _ _ H) as [n [Hin [Hk _]]]. destruct n; try discriminate. exact Hin.
    + unfold manifest_candidates in H. apply filter_In in H. destruct H as [_ H]. apply manifest_not_excluded_spec. exact H.
Qed.
Theorem C05_manifest_candidates : C05_manifest_statement manifest_locations manifest_exclusion.
Proof. exact (C05_manifest_all manifest_locations manifest_exclusion). Qed.
Print Assumptions C05_manifest_candidates.

(** "nothing outside the target directory - directly or through symlinks - is ever written": when the package stores
    are the manifest candidates, every changed path is a regular file of the tree (which lists only what is reachable
    without traversing a link).  Refuted for the pinned [AllNamed]: a symlinked manifest is a candidate. *)
Definition C05_outside_statement (lf : manifest_loc_form) : Prop :=
  match lf with
  | SkipSymlinks =>
      forall ef v tb (tr : Type) parse code T S R diff W fsel dry scan t exc inc Ks fs stores p,
      let cfg := {| Run.dry_run := dry; Run.all_files := files_for_directory t;
                    Run.ff_paths := find_and_fix_paths v defaults (files_for_directory t) exc inc; Run.scan_all := scan |} in
      (forall st, In st stores -> In (Run.st_path st) (manifest_candidates lf ef defaults t exc)) ->
      Run.lookup (Run.final_fs (Run.run tb tr parse code T S R diff W fsel cfg Ks fs stores)) p <> Run.lookup fs p ->
      In (p, NFile) t
  | AllNamed => exists ef t exc m, In m (manifest_candidates lf ef pinned_defaults t exc) /\ ~ In (m, NFile) t
  end.
Lemma C05_outside_all lf : C05_outside_statement lf.
Proof.
  destruct lf; cbv beta iota delta [C05_outside_statement].
  - exists NoManifestExclusion, w_link_tree, [], (lit "requirements.txt"). split; [vm_compute; left; reflexivity |].
    intros [H | [H | []]]; discriminate.
  - intros ef v tb tr parse code T S R diff W fsel dry scan t exc inc Ks fs stores p cfg Hst Hne.
    apply (C05_writes_subset v tb tr parse code T S R diff W fsel dry scan t exc inc Ks fs stores p) in Hne.
    destruct Hne as [[H _] | [st [Hin <-]]]; [exact H |].
    destruct (In_manifest_candidates_named _ _ _ _ _ _ (Hst st Hin)) as [n [Hn [Hk _]]]. destruct n; try discriminate. exact Hn.
Qed.
Theorem C05_nothing_outside_tree_written : C05_outside_statement manifest_locations.
Proof. exact (C05_outside_all manifest_locations). Qed.
Print Assumptions C05_nothing_outside_tree_written.

Theorem C05_sast_selection : forall defs regdef exts has_result t exc inc f,
  In f (sast_files_to_analyze defs regdef exts has_result (files_for_directory t) exc inc) <->
  (In (f, NFile) t /\ mem_str (suffix_of f) exts = true /\ has_result f = true)
  /\ Selected (included_paths inc regdef) exc f.
Proof. intros. rewrite In_sast_files_to_analyze, In_files_for_directory. reflexivity. Qed.
Print Assumptions C05_sast_selection.

(** ** Non-vacuity: concrete trees and pattern lists on which the statements compute (with the pinned default lists, so
    that this file builds whatever the current lists are) *)
Definition ex_tree : tree :=
  [(lit "a.py", NFile); (lit "sub", NDir); (lit "sub/b.py", NFile); (lit "tests", NDir); (lit "tests/c.py", NFile);
   (lit "notes.txt", NFile); (lit "lnk.py", NLinkFile); (lit "lnkdir", NLinkDir); (lit "sub/x[1].py", NFile)].

Example C05_example_defaults :
  ff_files_to_analyze FileLevelOrNone pinned_defaults [lit ".py"] (files_for_directory ex_tree) [] []
  = [lit "a.py"; lit "sub/b.py"; lit "sub/x[1].py"].
Proof. vm_compute. reflexivity. Qed.

Example C05_example_line_only_exclude :
  (* as the pinned tree is written: the defaults are switched off *)
  ff_files_to_analyze RawOrNone pinned_defaults [lit ".py"] (files_for_directory ex_tree) [lit "a.py:2"] []
  = [lit "a.py"; lit "sub/b.py"; lit "sub/x[1].py"; lit "tests/c.py"]
  (* as the property demands: they stay in force *)
  /\ ff_files_to_analyze FileLevelOrNone pinned_defaults [lit ".py"] (files_for_directory ex_tree) [lit "a.py:2"] []
  = [lit "a.py"; lit "sub/b.py"; lit "sub/x[1].py"].
Proof. vm_compute. split; reflexivity. Qed.

Example C05_example_manifests :
  manifest_names = [lit "pyproject.toml"; lit "setup.py"; lit "requirements.txt"; lit "setup.cfg"]
  /\ manifest_candidates AllNamed NoManifestExclusion pinned_defaults
       [(lit "requirements.txt", NLinkFile); (lit "venv/requirements.txt", NFile); (lit "sub/setup.cfg", NFile); (lit "setup.py", NDir)] []
     = [lit "requirements.txt"; lit "venv/requirements.txt"; lit "sub/setup.cfg"]
  /\ manifest_candidates SkipSymlinks FileLevelExcludes pinned_defaults
       [(lit "requirements.txt", NLinkFile); (lit "venv/requirements.txt", NFile); (lit "sub/setup.cfg", NFile); (lit "setup.py", NDir)] []
     = [lit "sub/setup.cfg"]
  /\ manifest_candidates SkipSymlinks FileLevelExcludes pinned_defaults
       [(lit "requirements.txt", NFile); (lit "sub/setup.cfg", NFile)] [lit "*.txt"; lit "sub/setup.cfg:3"]
     = [lit "sub/setup.cfg"].
Proof. vm_compute. repeat split; reflexivity. Qed.

Example C05_example_bracket_patterns :
  ff_files_to_analyze FileLevelOrNone pinned_defaults [lit ".py"] (files_for_directory ex_tree) [lit "sub/[!b]*"] [lit "sub/*"; lit "*.txt"]
  = [lit "sub/b.py"]
  /\ fnmatch (lit "sub/x[1].py") (lit "sub/x[1].py") = false
  /\ fnmatch (lit "sub/x[1].py") (lit "sub/x[[]1].py") = true
  /\ fnmatch (lit "a[b") (lit "a[b") = true.
Proof. vm_compute. repeat split; reflexivity. Qed.

Example C05_example_default_lists_pinned_premises_hold_somewhere :
  C05_default_lists_statement pinned_included pinned_excluded /\ pinned_included <> [] /\
  Selected pinned_included pinned_excluded (lit "src/pkg/m.py") /\
  ~ Selected pinned_included pinned_excluded (lit "src/site-packages/m.py").
Proof.
  split; [apply C05_default_lists_all |]. split; [discriminate |].
  split; [apply selectedb_Selected; vm_compute; reflexivity |].
  intros H. apply selectedb_Selected in H. vm_compute in H. discriminate.
Qed.
