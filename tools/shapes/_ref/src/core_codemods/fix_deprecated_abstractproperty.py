import libcst as cst

from codemodder.codemods.utils_mixin import NameResolutionMixin
from core_codemods.api import Metadata, Reference, ReviewGuidance, SimpleCodemod


class FixDeprecatedAbstractproperty(SimpleCodemod, NameResolutionMixin):
    metadata = Metadata(
        name="fix-deprecated-abstractproperty",
        summary="Replace Deprecated `abc` Decorators",
        review_guidance=ReviewGuidance.MERGE_WITHOUT_REVIEW,
        references=[
            Reference(
                url="https://docs.python.org/3/library/abc.html#abc.abstractproperty"
            ),
            Reference(
                url="https://docs.python.org/3/library/abc.html#abc.abstractclassmethod"
            ),
            Reference(
                url="https://docs.python.org/3/library/abc.html#abc.abstractstaticmethod"
            ),
        ],
    )
    change_description = "Replace deprecated `abc` decorator."
    DEPRECATED_TO_NEW = {
        "abc.abstractproperty": "property",
        "abc.abstractclassmethod": "classmethod",
        "abc.abstractstaticmethod": "staticmethod",
    }

    def leave_Decorator(
        self, original_node: cst.Decorator, updated_node: cst.Decorator
    ):
        if not self.filter_by_path_includes_or_excludes(
            self.node_position(original_node)
        ):
            return updated_node

        if (
            base_name := self.find_base_name(original_node.decorator)
        ) in self.DEPRECATED_TO_NEW:
            self.add_needed_import("abc")
            self.remove_unused_import(original_node)
            self.report_change(original_node)
            return cst.FlattenSentinel(
                [
                    cst.Decorator(
                        decorator=cst.Name(value=self._new_decorator(base_name)),
                        trailing_whitespace=updated_node.trailing_whitespace,
                    ),
                    cst.Decorator(
                        decorator=cst.Attribute(
                            value=cst.Name(value="abc"),
                            attr=cst.Name(value="abstractmethod"),
                        )
                    ),
                ]
            )

        return original_node

    def _new_decorator(self, old_name: str) -> str:
        return self.DEPRECATED_TO_NEW[old_name]
