# src/core_codemods/defectdojo/results.py at the commit the model was written against (shape reference; not executed)
class DefectDojoResult:
    @override
    def match_location(self, pos: CodeRange, node: cst.CSTNode) -> bool:
        """
        Match location for DefectDojo results

        Since DefectDojo does not provide column information, we can only match based on line number.
        We check whether the start line of the result is within the range of the node.
        """
        del node
        return any(
            pos.start.line <= location.start.line <= pos.end.line
            for location in self.locations
        )

class DefectDojoLocation:
    @classmethod
    def from_result(cls, result: dict) -> Self:
        return cls(
            file=Path(result["file_path"]),
            # TODO: parse snippet from "description" field?
            start=LineInfo(result["line"]),
            end=LineInfo(result["line"]),
        )

