(** [stores_reparse] for the modelled writers: the generic theorem of Proofs/ManifestReparse.v instantiated with
    [W_manifest] and the parser model.  requirements.txt: everything is derived from Model/Manifest.v (splitlines,
    _clean_lines, the append) and ONE oracle contract - packaging parses an appended requirement line back to the name it
    was written for ([line_contract], tested by the harness on every dependency).  setup.cfg: the names a fresh parse
    holds come from configparser + packaging (oracles), so the two facts needed about them stay explicit premises. *)
From CM Require Import Model.Manifest Spec.ManifestSpec Proofs.ManifestFacts Model.ManifestRun Proofs.ManifestNames.
From CM Require Import Proofs.ManifestRunFacts.
From CM Require Import Model.Run Spec.DiffSpec Proofs.C09Facts Proofs.RunWritesFacts Proofs.ManifestReparse.
From Coq Require Import Lia.

Lemma is_linebreak_is_break c : is_linebreak c = false -> Diff.is_break c = false.
Proof.
  intros H. unfold Diff.is_break.
  repeat match goal with |- context [(c =? ?k)%N] => destruct (N.eqb_spec c k); [subst; vm_compute in H; discriminate|] end.
  reflexivity.
Qed.

Lemma no_linebreak_clean l : forallb (fun c => negb (is_linebreak c)) l = true -> has_exotic l = false /\ no_nl l = true.
Proof.
  induction l as [|c r IH]; [split; reflexivity|]. cbn [forallb]. intros H. apply andb_true_iff in H as [Hc Hr].
  apply negb_true_iff in Hc. destruct (IH Hr) as [I1 I2]. split.
  - cbn [has_exotic].
    destruct (N.eqb_spec c 13) as [->|_]; [vm_compute in Hc; discriminate|].
    destruct (N.eqb_spec c 10) as [->|_]; [vm_compute in Hc; discriminate|].
    now rewrite (is_linebreak_is_break c Hc), I1.
  - unfold no_nl in *. cbn [existsb]. apply negb_true_iff in I2. rewrite I2, orb_false_r.
    unfold Manifest.CR, Manifest.LF.
    destruct (N.eqb_spec c 13) as [->|_]; [vm_compute in Hc; discriminate|].
    destruct (N.eqb_spec c 10) as [->|_]; [vm_compute in Hc; discriminate|]. reflexivity.
Qed.

Lemma lf_only_clean b : lf_only b = true -> has_exotic b = false /\ no_cr b = true.
Proof.
  induction b as [|c r IH]; [split; reflexivity|]. intros H. apply lf_only_cons in H as [Hc Hr]. destruct (IH Hr) as [I1 I2]. split.
  - cbn [has_exotic]. destruct Hc as [->|Hc]; [exact I1|].
    destruct (N.eqb_spec c 13) as [->|_]; [vm_compute in Hc; discriminate|].
    destruct (N.eqb_spec c 10) as [->|_]; [exact I1|]. now rewrite (is_linebreak_is_break c Hc), I1.
  - unfold no_cr in *. cbn [existsb]. apply negb_true_iff in I2. rewrite I2, orb_false_r. unfold Manifest.CR.
    destruct Hc as [->|Hc]; [reflexivity|].
    destruct (N.eqb_spec 13 c) as [<-|_]; [vm_compute in Hc; discriminate|]. reflexivity.
Qed.

Section Inst.
  Variable matcher : list str -> list str -> script.
  Variable line_of : str -> str.
  Variable defined_of : str -> option str.
  Variable lv : cfg_last_line.
  Variable req_cname : str -> option str.
  (** setup.cfg: which texts the parser offers as a store the model's writer can update, and the names it then holds *)
  Variable cfg_covers : str -> bool.
  Variable cfg_names : str -> list str.
  Local Notation Wm := (W_manifest matcher line_of defined_of lv).

  Definition covers_m (k : skind) (b : bytes) : bool :=
    match k with
    | SReqTxt => negb (is_nil b) && lf_only b && negb (starts_with [65279%N] b)
        (* a non-empty text whose only line boundary is "\n", without BOM (the parser decodes a BOM away, the writer does not) *)
    | SSetupCfg => cfg_covers b
    | _ => false                                 (* pyproject.toml / setup.py: not modelled, no store offered *)
    end.
  Definition names_m (k : skind) (b : bytes) : list Run.dep :=
    match k with SReqTxt => names_req req_cname b | SSetupCfg => cfg_names b | _ => [] end.

  Hypothesis Hline : forall n, line_contract req_cname line_of n = true.
  Hypothesis Hcfg_writable : forall b ds, cfg_covers b = true -> ds <> [] -> exists r, Wm SSetupCfg (Some b) ds = Some r.
  Hypothesis Hcfg_names : forall b ds b' d chs, cfg_covers b = true -> Wm SSetupCfg (Some b) ds = Some (b', d, chs) ->
    cfg_covers b' = true /\ cfg_names b' = cfg_names b ++ ds.

  Lemma Hline_all ds : forallb (line_contract req_cname line_of) ds = true.
  Proof. apply forallb_forall. intros n _. apply Hline. Qed.

  Lemma lines_guard_all ds : lines_guard line_of ds = true.
  Proof.
    unfold lines_guard. apply forallb_forall. intros n _. pose proof (Hline n) as H. unfold line_contract in H.
    apply andb_true_iff in H as [H _]. apply andb_true_iff in H as [H _].
    destruct (no_linebreak_clean _ H) as [E1 E2]. now rewrite E1, E2.
  Qed.

  Lemma req_W_eq b ds : negb (is_nil b) && lf_only b && negb (starts_with [65279%N] b) = true ->
    Wm SReqTxt (Some b) ds =
      Some (ensure_final_lf b ++ concat (req_lines (mdeps line_of ds)),
            create_diff (matcher (readlines_lf (ensure_final_lf b)) (readlines_lf (ensure_final_lf b) ++ req_lines (mdeps line_of ds))),
            changes_of (linenums_from (N.of_nat (length (readlines_lf (ensure_final_lf b)))) (mdeps line_of ds))).
  Proof.
    intros H. apply andb_true_iff in H as [H _]. apply andb_true_iff in H as [Hn Hl]. destruct (lf_only_clean b Hl) as [_ Hcr].
    assert (Hb : b <> []) by (destruct b; [discriminate|discriminate]).
    unfold W_manifest. rewrite Hcr, lines_guard_all. cbn [andb]. unfold readlines. rewrite (univ_nl_id b Hcr).
    rewrite (fix_last_readlines_lf_lines b Hb). unfold writelines. now rewrite concat_app, concat_readlines_lf.
  Qed.

  Lemma covers_writable k b ds : covers_m k b = true -> ds <> [] -> exists r, Wm k (Some b) ds = Some r.
  Proof.
    destruct k; cbn [covers_m]; try discriminate.
    - intros H _. eexists. apply (req_W_eq b ds H).
    - apply Hcfg_writable.
  Qed.

  Lemma covers_names k b ds b' d chs : covers_m k b = true -> Wm k (Some b) ds = Some (b', d, chs) ->
    covers_m k b' = true /\ names_m k b' = names_m k b ++ ds.
  Proof.
    destruct k; cbn [covers_m names_m]; try discriminate.
    - intros H HW. pose proof (eq_trans (eq_sym (req_W_eq b ds H)) HW) as E. injection E as <- _ _.
      apply andb_true_iff in H as [H Hbom]. apply andb_true_iff in H as [Hn Hl].
      assert (Hb : b <> []) by (destruct b; [discriminate|discriminate]).
      destruct (names_req_lines req_cname line_of ds (Hline_all ds)) as [Hl2 _]. split.
      + destruct b as [|c0 r0]; [congruence|].
        assert (Ee : exists tl, ensure_final_lf (c0 :: r0) = c0 :: tl /\ lf_only (c0 :: tl) = true).
        { unfold ensure_final_lf. destruct (ends_lf (c0 :: r0)); [exists r0; split; [reflexivity|exact Hl]|].
          exists (r0 ++ [LF]). split; [reflexivity|]. change (c0 :: r0 ++ [LF]) with ((c0 :: r0) ++ [LF]). rewrite lf_only_app, Hl. reflexivity. }
        destruct Ee as [tl [Ee El]]. rewrite Ee. cbn [app is_nil negb andb].
        change (c0 :: tl ++ concat (req_lines (mdeps line_of ds))) with ((c0 :: tl) ++ concat (req_lines (mdeps line_of ds))).
        rewrite lf_only_app, El, Hl2. cbn [andb]. cbn [starts_with app] in *. exact Hbom.
      + apply names_req_after; [exact Hb|exact Hl|apply Hline_all].
    - apply Hcfg_names.
  Qed.

  Theorem stores_reparse_manifest tb tree parse code T S R diff fsel cfg (ms : list (skind * path)) :
    dry_run cfg = false -> NoDup (map snd ms) ->
    (forall K p, In p (map snd ms) -> ~ In p (scope fsel cfg K)) ->
    forall Ks, stores_reparse tb tree parse code T S R diff Wm fsel cfg (pstores_of covers_m names_m ms) Ks.
  Proof.
    intros Hdry Hnd Hsc. apply stores_reparse_of; auto.
    - apply covers_writable.
    - apply covers_names.
  Qed.
End Inst.
