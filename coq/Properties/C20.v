(** C20 — the exit status tells the caller what happened.

    Full-strength statement.  For every world [w] (the outcome of every oracle the entry point consults: argparse, the
    existence of the target directory, SARIF tool detection, the existence of each supplied result file, the AI-client
    environment, whether --output was given and whether the report can be written), the status returned by
    [codemodder.main] (model: [run_exit] interpreting the chain of guarded returns GENERATED from codemodder.run, the
    code of ArgumentParser.error, whether write_report's status reaches a return, the result-file lists that reach the
    existence loop, the type of --max-workers) equals [documented w] — the status of the first applicable condition:
      3 arguments refused (syntax, conflicts, values that cannot be valid), 0 for --help/--version/--list/--describe,
      1 target directory missing, SARIF file missing, two SARIF inputs of one tool, a supplied result file missing,
      3 inconsistent AI-client configuration, 2 report not writable, 0 otherwise —
    and a report file exists exactly when a run with --output completed (so a non-zero status never comes with a report).

    What is proved.  The space of worlds is finite (49152) and enumerated completely ([all_worlds_complete]); for ANY value
    of the generated tables each statement below is either the universal law or a concrete counterexample world
    (the first one of a complete sweep) — the kernel accepts the instance at the current table values.
    [C20_exit_table] is restricted to [in_scope]: outside are the two input classes left as known findings
    (a non-integer `path:line` item; a SARIF file that is not JSON / has no "runs" / is a directory), for which the
    model says [Crash] ([C20_crash_refuted]); [C20_crash_only] says nothing else crashes.
    The report clause.  A world also says what a failing write leaves behind (nothing, or a truncated file when open()
    succeeded: [w_write_partial]); outcomes carry [RNone | RPartial | RFull].  [C20_exit_table] demands a complete report
    exactly when one is due (status 0 with --output).  [C20_nonzero_no_report] is, in the MODEL, a consequence of the
    chain shapes the translator accepts (the write is the last fallible step, the function ends with `return 0`, no guard
    may follow the write): it would only fail for a table whose write code is 0 — so for this clause the weight is on
    (a) the fail-closed recognition of those shapes and (b) the MEASUREMENT by the harness: after every run with a
    non-zero status it inspects the --output path (absent / not a regular file / a file that is not a complete JSON
    document), including a run whose write is made to fail half-way by a fault injected from the harness.
    The shape of the target tree (empty, only sub-directories, only non-Python or excluded files, symlinks, undecodable
    files, deep, many files) is not a dimension of the world: [C20_tree_shape_irrelevant] (trivial in the model) records
    that the chain consults nothing about it; the harness varies it for real, combined with the kind of run and with the
    failing dimensions, and relies on the generic measurements (escaped exception; non-zero status with a complete report).
    Not modelled: what argparse accepts (an oracle: the harness builds argv per class and observes the real status);
    whether an early-exit option is met before or after an erroneous one on the command line (the harness puts it first). *)
From CM Require Import Model.Exit Spec.ExitSpec Proofs.ExitFacts Generated.Tables.

Definition C20_exit_statement chain used code groups validated filtered : Prop := exit_table_statement (mkT chain used code groups validated filtered).
Theorem C20_exit_table : C20_exit_statement exit_chain write_report_status_used argparse_error_code exit_checked_groups max_workers_validated semgrep_targets_filtered.
Proof. exact (exit_table_all _). Qed.
Print Assumptions C20_exit_table.

Definition C20_report_statement chain used code groups validated filtered : Prop := nonzero_no_report_statement (mkT chain used code groups validated filtered).
Theorem C20_nonzero_no_report : C20_report_statement exit_chain write_report_status_used argparse_error_code exit_checked_groups max_workers_validated semgrep_targets_filtered.
Proof. exact (nonzero_no_report_all _). Qed.
Print Assumptions C20_nonzero_no_report.

Definition C20_crash_statement chain used code groups validated filtered : Prop := crash_only_statement (mkT chain used code groups validated filtered).
Theorem C20_crash_only : C20_crash_statement exit_chain write_report_status_used argparse_error_code exit_checked_groups max_workers_validated semgrep_targets_filtered.
Proof. exact (crash_only_all _). Qed.
Print Assumptions C20_crash_only.

(** known findings: an exception escapes, whatever the tables *)
Theorem C20_crash_refuted : forall T, run_exit T w_line = Crash /\ run_exit T w_malformed = Crash.
Proof. exact crash_inputs. Qed.
Print Assumptions C20_crash_refuted.

(** the defects one by one, independent of the other table values *)
Theorem C20_refuted_unwritable : forall chain code groups validated filtered r,
  run_exit (mkT chain false code groups validated filtered) w_unwritable <> Exit (documented w_unwritable) r.
Proof. exact unwritable_dropped. Qed.
Print Assumptions C20_refuted_unwritable.

Theorem C20_refuted_contrast_unchecked : forall chain used code groups validated filtered,
  existsb (group_eqb GrContrast) groups = false -> forall r,
  run_exit (mkT chain used code groups validated filtered) w_contrast_missing <> Exit (documented w_contrast_missing) r.
Proof. exact contrast_unchecked. Qed.
Print Assumptions C20_refuted_contrast_unchecked.

Theorem C20_refuted_nonpositive_workers : forall chain used code groups filtered,
  run_exit (mkT chain used code groups false filtered) w_workers = Crash /\ documented w_workers = 3%Z.
Proof. intros. split; [apply workers_unvalidated | reflexivity]. Qed.
Print Assumptions C20_refuted_nonpositive_workers.

(** pinned form, write failing half-way: status 0 although only a truncated file exists *)
Theorem C20_refuted_partial_report : forall chain code groups validated filtered,
  chain_canonical chain = true ->
  run_exit (mkT chain false code groups validated filtered) w_partial = Exit 0 RPartial /\ documented w_partial = 2%Z.
Proof. intros. split; [now apply partial_dropped | reflexivity]. Qed.
Print Assumptions C20_refuted_partial_report.

(** a file without the owner-read bit in the target tree, a semgrep-detected codemod selected: `semgrep scan` exits 2 on
    the explicit target, semgrep.run re-raises, the run ends with a traceback and status 1 although nothing the caller
    asked for is wrong (documented: 0, the file is merely not processed) *)
Theorem C20_refuted_unreadable_target : forall chain used code groups validated,
  run_exit (mkT chain used code groups validated false) w_unreadable = Crash /\ documented w_unreadable = 0%Z /\ in_scope w_unreadable = true.
Proof. intros. split; [apply unreadable_unfiltered | split; reflexivity]. Qed.
Print Assumptions C20_refuted_unreadable_target.

(** the repaired tables (chain of HEAD + the proposed semgrep target filter): the law holds of every world in scope *)
Definition repaired_tables : exit_tables :=
  mkT [(GDirMissing, 1%Z); (GSarifError, 1%Z); (GResultFileMissing, 1%Z); (GAIMisconfigured, 3%Z); (GReportWrite, 2%Z)]
      true 3%Z [GrSonarIssues; GrSonarHotspots; GrDefectDojo; GrContrast] true true.
Theorem C20_repaired_exit_table : forall w, in_scope w = true -> conforms w (run_exit repaired_tables w).
Proof.
  assert (E : exit_counterexamples repaired_tables = []) by (vm_compute; reflexivity).
  pose proof (exit_table_all repaired_tables) as H. unfold exit_table_statement in H. rewrite E in H. exact H.
Qed.
Print Assumptions C20_repaired_exit_table.

(** the status and the report do not depend on what the target tree contains (in the model by construction: the chain
    consults no oracle about it; on the implementation this is MEASURED over ten tree shapes x five kinds of run) *)
Theorem C20_tree_shape_irrelevant : forall s1 s2 T w, run_exit_in s1 T w = run_exit_in s2 T w.
Proof. reflexivity. Qed.
Print Assumptions C20_tree_shape_irrelevant.

(** what "first applicable condition" means (facts about [documented], hence about the implementation wherever
    [C20_exit_table] is in its positive branch) *)
Theorem C20_first_applicable :
  (forall w, w_argparse w = ParseErr -> documented w = 3%Z) /\
  (forall w, w_argparse w = EarlyExit0 -> documented w = 0%Z) /\
  (forall w, w_argparse w = Args -> w_bad_workers w = false -> w_bad_line w = false ->
     (w_dir_exists w = false \/ sarif_refused (w_sarif w) = true \/
      w_miss_issues w = true \/ w_miss_hotspots w = true \/ w_miss_dd w = true \/ w_miss_contrast w = true) ->
     documented w = 1%Z) /\
  (forall w, w_argparse w = Args -> w_bad_workers w = false -> w_bad_line w = false -> w_dir_exists w = true ->
     sarif_refused (w_sarif w) = false -> w_miss_issues w = false -> w_miss_hotspots w = false -> w_miss_dd w = false ->
     w_miss_contrast w = false -> w_ai_consistent w = false -> documented w = 3%Z) /\
  (forall w, documented w = 2%Z <->
     w_argparse w = Args /\ w_bad_workers w = false /\ w_bad_line w = false /\ w_dir_exists w = true /\
     sarif_refused (w_sarif w) = false /\ w_miss_issues w = false /\ w_miss_hotspots w = false /\ w_miss_dd w = false /\
     w_miss_contrast w = false /\ w_ai_consistent w = true /\ w_output w = true /\ w_write_ok w = false).
Proof. exact documented_order. Qed.
Print Assumptions C20_first_applicable.

(** non-vacuity: worlds in scope on which every documented status occurs, computed through the generated tables' repaired form *)
Example C20_example_statuses :
  in_scope nominal = true /\ in_scope w_unwritable = true /\
  run_exit repaired_tables nominal = Exit 0 RFull /\
  run_exit repaired_tables w_unwritable = Exit 2 RNone /\
  run_exit repaired_tables w_partial = Exit 2 RPartial /\
  run_exit repaired_tables w_contrast_missing = Exit 1 RNone /\
  run_exit repaired_tables w_workers = Exit 3 RNone /\
  run_exit repaired_tables w_unreadable = Exit 0 RFull.
Proof. vm_compute. repeat split; reflexivity. Qed.
