"""C17 — exactly the requested codemods run, once each, in the requested order.

Implementation side: `CodemodRegistry.match_codemods` called in-process on the real registry
(`load_registered_codemods()`) and on synthetic registries, `cli.parse_args` (CsvListAction, mutually exclusive group),
and the real console entry point (`running codemod <id>` lines, `results[].codemod` of the report).
Model/spec side: coq/Model/Select.v at the generated table values, coq/Spec/SelectSpec.v (`select_ref`), evaluated by
vm_compute inside Coq (coq/Harness/C17_run.v)."""
from __future__ import annotations

import itertools
import json
import re
from concurrent.futures import ThreadPoolExecutor
from pathlib import Path

from harness import core
from harness.core import cbool, clist, cpair, cstr

META = {
    "rule": "include/exclude lists built from real ids, unknown ids (mutated ids, empty string) and `*` patterns cut out of "
            "ids (prefix, infix, suffix, several stars, `**`, bare `*`, overlapping patterns, names with regex metacharacters) "
            "x real registry (101 codemods) and synthetic registries (stub objects in CodemodRegistry._codemods_by_id) x both "
            "eligibility modes (several truthy/falsy encodings of sast_only) x None/[] lists; non-trivial = at least one item "
            "that selects a codemod plus (a pattern, or an unknown item, or an overlap/repeat); distinct by (registry, lists, mode)",
    "trusted": [
        "CPython `re` implements literal/`.*` matching for escaped patterns (compared with the model's matchers on every run)",
        "argparse; the harness's own reading of a CSV option (split at ',', first occurrence kept, last option wins) is "
        "compared with cli.parse_args on every run",
        "the sequence of executed codemods is the sequence of calls of BaseCodemod._apply recorded by a wrapper installed from the harness; "
        "CodeTF `results[].codemod` must equal it (violation otherwise); the `running codemod <id>` log lines are only cross-checked (mismatch)",
    ],
    "assumptions": [
        "registry rows are (id, origin); ids pairwise different (dict keys) and without line feed (wf_reg)",
        "an explicit --codemod-exclude replaces DEFAULT_EXCLUDED_CODEMODS (reading of 'excluded by default' recorded in Properties/C17.v)",
    ],
}

IMPORTS = "From CM Require Import Harness.RunBase Harness.C17_run Model.Select Spec.SelectSpec.\n"
META_CHARS = set(".^$+?{}[]\\|()")


# ------------------------------------------------------------------------------------------------
# implementation side
# ------------------------------------------------------------------------------------------------
class Stub:
    def __init__(self, id, origin):
        self.id, self.origin = id, origin

    def __repr__(self):
        return f"Stub({self.id!r},{self.origin!r})"


def synthetic_registry(rows):
    from codemodder.registry import CodemodRegistry
    r = CodemodRegistry()
    for i, o in rows:
        r._codemods_by_id[i] = Stub(i, o)
    return r


_REAL = {}


def real_registry():
    if "r" not in _REAL:
        from codemodder.registry import load_registered_codemods
        _REAL["r"] = load_registered_codemods()
    return _REAL["r"]


def rows_of(registry):
    return [(c.id, c.origin) for c in registry.codemods]


def call_impl(registry, incl, excl, sast):
    """-> ('ok', [ids]) | ('crash', repr) ; also checks that the returned objects are the registry's own"""
    import logging
    logging.disable(logging.CRITICAL)   # the "does not exist" warnings are not an observable of this check
    try:
        out = registry.match_codemods(incl, excl, sast_only=sast)
    except re.error as e:
        return ("crash", f"re.error: {e}")
    except Exception as e:  # any other exception is an observable too
        return ("crash", f"{type(e).__name__}: {e}")
    finally:
        logging.disable(logging.NOTSET)
    by_id = registry._codemods_by_id
    foreign = [c for c in out if by_id.get(c.id) is not c]
    if foreign:
        return ("crash", f"returned objects that are not registry entries: {foreign[:3]}")
    return ("ok", [c.id for c in out])


# ------------------------------------------------------------------------------------------------
# Coq terms
# ------------------------------------------------------------------------------------------------
def c_reg(rows):
    return clist([cpair(cstr(i), cstr(o)) for i, o in rows], "codemod")


def c_strs(l):
    return clist([cstr(x) for x in (l or [])], "str")


def c_args(args):
    return clist([cpair(cstr(d), c_strs(v)) for d, v in args], "str * list str")


class RegPool:
    """registries are defined once per Coq file and referred to by name"""

    def __init__(self):
        self.names, self.defs = {}, []

    def name(self, rows):
        key = tuple(rows)
        if key not in self.names:
            n = f"reg_{len(self.names)}"
            self.names[key] = n
            self.defs.append(f"Definition {n} : list codemod := {c_reg(rows)}.")
        return self.names[key]

    def preamble(self):
        return IMPORTS + "\n".join(self.defs) + "\n"


def parse_str_list_list(out: str):
    """`= [[97; 98]; [99]] : list str` -> ['ab', 'c']"""
    m = re.search(r"=\s*(\[.*\])\s*:\s*list", out, flags=re.S)
    if not m:
        return None
    body = m.group(1).replace("%N", "").replace("\n", " ")
    items = re.findall(r"\[([0-9;\s]*)\]", body[1:-1]) if body.strip() != "[]" else []
    return ["".join(chr(int(x)) for x in it.split(";") if x.strip()) for it in items]


def eval_expected(ctx, name, preamble, fn, case_terms):
    """evaluate `fn case` for each case in ONE Coq file; -> list of list[str] (None where unparsable)"""
    if not case_terms:
        return []
    text = preamble + "\n".join(f"Eval vm_compute in ({fn} {c})." for c in case_terms) + "\n"
    rc, out = core.coqc_scratch(ctx, name, text)
    if rc != 0:
        return [None] * len(case_terms)
    chunks = [c for c in re.split(r"(?=^\s*=\s)", out, flags=re.M) if re.match(r"\s*=\s", c)]
    res = [parse_str_list_list(c) for c in chunks]
    return res if len(res) == len(case_terms) else [None] * len(case_terms)


# ------------------------------------------------------------------------------------------------
# generators
# ------------------------------------------------------------------------------------------------
SYN_IDS = ["a", "ab", "abc", "b", "ba", "bab", "a-b", "a.b", "a+b", "a[b", "a(b)", "x:y/a-b", "x:y/a", "x:y/b-set-lit",
           "pixee:python/foo", "pixee:python/foo-bar", "sonar:python/foo", "aXb", "a\\b", "a|b", "a?b", "^a", "a$", "a{2}", "aa"]
SYN_ORIGINS = ["pixee", "pixee", "pixee", "sonar", "semgrep", "defectdojo", "Pixee", "pixee2", ""]


def gen_synthetic_rows(rng):
    n = rng.choice([0, 1, 2, 3, 4, 6, 6, 8, 12])
    ids = rng.sample(SYN_IDS, min(n, len(SYN_IDS)))
    return [(i, rng.choice(SYN_ORIGINS)) for i in ids]


def cut_pattern(rng, ident):
    """a `*` pattern cut out of an id"""
    n = len(ident)
    kind = rng.choice(["prefix", "suffix", "infix", "two", "doublestar", "bare", "inner_only", "suffix_short", "literal_star_mid"])
    if n == 0:
        return "*", "bare"
    i, j = sorted((rng.randint(0, n), rng.randint(0, n)))
    if kind == "prefix":       # keeps a prefix: "abc*"
        return ident[:max(i, 1)] + "*", kind
    if kind == "suffix":       # keeps a suffix: "*abc"
        return "*" + ident[min(j, n - 1):], kind
    if kind == "infix":        # star in the middle
        return ident[:i] + "*" + ident[j:], kind
    if kind == "two":
        k = rng.randint(j, n)
        return ident[:i] + "*" + ident[j:k] + "*", kind
    if kind == "doublestar":
        return ident[:i] + "**" + ident[j:], kind
    if kind == "bare":
        return "*", kind
    if kind == "inner_only":   # "*mid*" -- substring search
        return "*" + ident[i:j] + "*", kind
    if kind == "suffix_short":  # "*set-lit": matches under prefix anchoring only
        return "*" + ident[i:max(j - 1, i)], kind
    return ident[:i] + "*" + ident[i:], kind   # star inserted: matches (star = empty)


def mutate_id(rng, ident):
    k = rng.choice(["trunc", "ext", "swap", "empty", "case", "dot"])
    if k == "trunc" and ident:
        return ident[:-1]
    if k == "ext":
        return ident + rng.choice(["x", "-", "2"])
    if k == "swap" and len(ident) > 1:
        return ident[1:] + ident[0]
    if k == "empty":
        return ""
    if k == "case":
        return ident.upper()
    return ident.replace("-", ".", 1) if "-" in ident else ident + "."


def gen_items(rng, ids, ctx=None):
    """one include or exclude list"""
    n = rng.choice([0, 1, 1, 2, 2, 3, 4, 6])
    items = []
    pool = ids or ["a"]
    for _ in range(n):
        base = rng.choice(pool)
        k = rng.choice(["id", "id", "pattern", "pattern", "unknown", "repeat", "overlap", "meta"])
        if k == "id":
            items.append(base)
        elif k == "pattern":
            p, kind = cut_pattern(rng, base)
            items.append(p)
            if ctx:
                ctx.count(f"pattern:{kind}")
        elif k == "unknown":
            items.append(mutate_id(rng, base))
        elif k == "repeat" and items:
            items.append(rng.choice(items))
        elif k == "overlap":
            items.append(base)
            items.append(cut_pattern(rng, base)[0])
        else:
            items.append(rng.choice(["*[", "a+*", "*.b", "(*", "*)", "a|*", "\\*", "*$", "^*", "a{1}*", "[a]*", "a?*", "*.*"]))
    return items


SAST_ENCODINGS = [(False, False), (False, None), (False, []), (False, 0), (True, True), (True, ["f.json"]), (True, 1), (True, "x")]


def is_plain(items):
    return not any(set(x) & META_CHARS for x in (items or []))


def classify(incl, excl, obs, exp):
    if incl:
        if len(set(obs)) != len(obs):
            return "kf_select_include_duplicate"
        if exp is not None and set(exp) < set(obs):
            return "kf_select_include_prefix_match"
        return "kf_select_include_other"
    if exp is not None and set(obs) < set(exp):
        return "kf_select_exclude_prefix_match"
    if exp is not None and sorted(obs) == sorted(exp):
        return "kf_select_registry_order"
    return "kf_select_exclude_other"


# hand-picked regression inputs (the `_refuted` witnesses of Properties/C17.v first)
def corpus_cases():
    d = core.VERIF / "corpus" / "C17"
    out = []
    for f in sorted(d.glob("*.json")):
        b = json.loads(f.read_text())
        out.append((f"corpus:{f.stem}", [tuple(r) for r in b["registry"]], b.get("include"), b.get("exclude"), bool(b.get("sast"))))
    return out


# ------------------------------------------------------------------------------------------------
def run_inprocess(ctx):
    rng = ctx.rng
    tables = ctx.tables or {}
    inc_pinned = tables.get("include_matcher") == "PrefixRegex"
    exc_pinned = tables.get("exclude_matcher") == "PrefixRegex"
    real = real_registry()
    real_rows = rows_of(real)
    from codemodder.registry import DEFAULT_EXCLUDED_CODEMODS
    if tables.get("default_excluded_codemods") != list(DEFAULT_EXCLUDED_CODEMODS):
        ctx.mismatch("DEFAULT_EXCLUDED_CODEMODS vs Tables.default_excluded_codemods",
                     f"imported {DEFAULT_EXCLUDED_CODEMODS} but the translator extracted {tables.get('default_excluded_codemods')}", {})

    n = 260 if ctx.quick() else 2500
    if getattr(ctx, "deep", False):
        n *= 3
    todo = []   # (label, registry object, rows, incl, excl, sast_truth, sast_value)
    for label, rows, incl, excl, sast in corpus_cases():
        todo.append((label, synthetic_registry(rows), rows, incl, excl, sast, sast))
    # registry-wide sanity: default selection in both modes, everything, nothing
    for sast in (False, True):
        todo.append(("real:default", real, real_rows, None, None, sast, sast))
        todo.append(("real:exclude-star", real, real_rows, None, ["*"], sast, sast))
        todo.append(("real:include-star", real, real_rows, ["*"], None, sast, sast))
        todo.append(("real:include-origin-patterns", real, real_rows, ["sonar:*", "pixee:*", "*:python/*"], None, sast, sast))
    for i in range(n):
        if rng.random() < 0.45:
            reg, rows, kind = real, real_rows, "real"
        else:
            rows = gen_synthetic_rows(rng)
            reg, kind = synthetic_registry(rows), "synthetic"
        ids = [r[0] for r in rows]
        mode = rng.choice(["include", "include", "exclude", "exclude", "default", "both"])
        incl = gen_items(rng, ids, ctx) if mode in ("include", "both") else rng.choice([None, []])
        excl = gen_items(rng, ids, ctx) if mode in ("exclude", "both") else rng.choice([None, []])
        if mode == "exclude" and kind == "real" and rng.random() < 0.5:
            excl = list(excl or []) + rng.sample(list(DEFAULT_EXCLUDED_CODEMODS), rng.randint(0, 2))
        truth, val = rng.choice(SAST_ENCODINGS)
        todo.append((f"{kind}:{mode}", reg, rows, incl, excl, truth, val))
    if not ctx.quick():
        # exhaustive small scope: all lists of length <= 3 over a 10-item alphabet on a 6-codemod registry
        rows6 = [("a", "pixee"), ("ab", "pixee"), ("abc", "sonar"), ("b", "pixee"), ("ba", "semgrep"), ("cab", "pixee")]
        alphabet = ["a", "b", "ab", "zz", "a*", "*b", "*a*", "*", "a*c", "**b"]
        reg6 = synthetic_registry(rows6)
        for k in range(0, 4):
            for items in itertools.product(alphabet, repeat=k):
                items = list(items)
                todo.append(("exhaustive:include", reg6, rows6, items, None, False, False))
                for sast in (False, True):
                    todo.append(("exhaustive:exclude", reg6, rows6, None, items, sast, sast))

    pool = RegPool()
    cases, meta = [], []
    model_skip = set()
    for label, reg, rows, incl, excl, truth, val in todo:
        st, obs = call_impl(reg, incl, excl, val)
        ctx.count("case:" + label.split(":")[0] + ":" + label.split(":")[1] if label.startswith(("real", "synthetic", "exhaustive")) else "case:corpus")
        ctx.count(f"sast:{truth}")
        ctx.count(f"list_len:{len(incl or excl or [])}")
        if st == "crash":
            # only the pinned matcher (raw regex) can raise; that outcome belongs to C20 (`Crash`)
            ctx.count("impl_raised")
            if not (inc_pinned or exc_pinned):
                ctx.violation("kf_select_crash", f"match_codemods raised on include={incl} exclude={excl}: {obs}",
                              {"registry": rows if len(rows) < 30 else "real", "include": incl, "exclude": excl, "sast": truth, "observed": obs})
            continue
        idx = len(cases)
        cases.append(cpair(pool.name(rows), c_strs(incl), c_strs(excl), cbool(truth), c_strs(obs)))
        meta.append((label, rows, incl, excl, truth, obs))
        # the pinned matcher is the regex engine on the raw name: the model speaks for metacharacter-free names only
        used = incl if incl else (excl or [])
        if ((inc_pinned and incl) or (exc_pinned and not incl)) and not (is_plain(used) and is_plain([r[0] for r in rows])):
            model_skip.add(idx)
            ctx.count("model_not_applicable:pinned_matcher_with_metacharacters")
        selects = len(obs) > 0
        interesting = any("*" in x for x in used) or len(set(used)) != len(used) or any(x not in [r[0] for r in rows] for x in used)
        ctx.case({"registry": label, "include": incl, "exclude": excl, "sast": truth, "observed": obs[:6]},
                 nontrivial_key=(tuple(rows) if len(rows) < 30 else "real", tuple(incl or []), tuple(excl or []), truth)
                 if (selects and interesting) else None,
                 sample=selects and interesting and len(used) >= 3)

    bad = core.eval_bad_indices(ctx, "c17_sel", pool.preamble(), "sel_case", cases, ["sel_model_ok", "sel_spec_ok"], chunk=300)
    for i in bad["sel_model_ok"]:
        if i in model_skip:
            continue
        label, rows, incl, excl, truth, obs = meta[i]
        ctx.mismatch("CodemodRegistry.match_codemods vs Model.Select.match_codemods_model",
                     f"[{label}] include={incl} exclude={excl} sast={truth}: implementation returned {obs[:8]}",
                     {"registry": rows if len(rows) < 30 else "real", "include": incl, "exclude": excl, "sast": truth, "observed": obs})
    failing = bad["sel_spec_ok"][:60]
    exps = eval_expected(ctx, "c17_expected", pool.preamble(), "sel_expected", [cases[i] for i in failing])
    shown = {}
    for i, exp in zip(failing, exps):
        label, rows, incl, excl, truth, obs = meta[i]
        cls = classify(incl, excl, obs, exp)
        shown[cls] = shown.get(cls, 0) + 1
        if shown[cls] > 3:
            continue
        ctx.violation(cls, f"[{label}] include={incl} exclude={excl} sast={truth}: selected {obs[:8]}{'...' if len(obs) > 8 else ''}, "
                           f"reference selection {exp if exp is None or len(exp) <= 8 else exp[:8] + ['...']}",
                      {"registry": rows if len(rows) < 30 else "real", "include": incl, "exclude": excl, "sast": truth,
                       "observed": obs, "expected": exp, "op": "match_codemods"})
    if len(bad["sel_spec_ok"]) > len(failing):
        ctx.notes.append(f"{len(bad['sel_spec_ok'])} in-process cases deviate from the reference selection; the first {len(failing)} were classified")


def run_matchers(ctx):
    """the compiled pattern objects alone, against the three matchers of the development"""
    rng = ctx.rng
    import codemodder.registry as R
    cases, meta = [], []
    wp = getattr(R, "_wildcard_pattern", None)
    n = 300 if ctx.quick() else 3000
    subjects = SYN_IDS + ["", "a\nb", "ab\n", "pixee:python/use-set-literal", "x:y/use-set-lit"]
    for _ in range(n):
        s = rng.choice(subjects)
        if rng.random() < 0.6:
            name = cut_pattern(rng, rng.choice(subjects))[0]
        else:
            name = rng.choice(["*", "**", "a*", "*b", "*a*b*", "a*b*c", "*[", "a.*", "*+*", "*\n*", "a*\nb", "*b\n", "x:y/*-set-lit*"])
        if wp is not None:
            obs = wp(name).fullmatch(s) is not None
            kind = "match_full_ok"
        else:
            if set(name) & META_CHARS:
                continue
            obs = re.compile(name.replace("*", ".*")).match(s) is not None
            kind = "match_prefix_ok"
        ctx.count(f"matcher_case:{kind}:{'hit' if obs else 'miss'}")
        cases.append(cpair(cstr(name), cstr(s), cbool(obs)))
        meta.append((name, s, obs, kind))
    kinds = sorted({m[3] for m in meta})
    checks = kinds + (["match_ref_ok"] if kinds == ["match_full_ok"] else [])
    bad = core.eval_bad_indices(ctx, "c17_match", IMPORTS, "match_case", cases, checks, chunk=600)
    for k in kinds:
        for i in bad[k]:
            name, s, obs, _ = meta[i]
            ctx.mismatch(f"compiled pattern vs Model.Select ({k})", f"pattern {name!r} on {s!r}: implementation says {obs}",
                         {"pattern": name, "subject": s, "observed": obs})
    for i in bad.get("match_ref_ok", []):
        name, s, obs, _ = meta[i]
        if "\n" in s:
            ctx.count("matcher_linefeed_subject_differs_from_glob")   # outside wf_reg: `.` does not match a line feed
            continue
        ctx.violation("kf_select_matcher_not_glob", f"pattern {name!r} on id {s!r}: implementation says {obs}, glob matching says {not obs}",
                      {"pattern": name, "subject": s, "observed": obs, "op": "matcher"})


def expected_csv(argv_values):
    """the harness's reading of a CSV option given possibly several times: last one wins, first occurrence of an item kept"""
    if not argv_values:
        return None
    return list(dict.fromkeys(argv_values[-1].split(",")))


def run_argparse(ctx):
    """CsvListAction de-duplication and the mutually exclusive include/exclude group (oracle contract)"""
    from codemodder.cli import parse_args
    rng = ctx.rng
    real = real_registry()
    ids = real.ids
    n = 60 if ctx.quick() else 400
    import contextlib
    import io
    import logging
    for _ in range(n):
        inc = [",".join(gen_items(rng, ids)) for _ in range(rng.choice([0, 1, 1, 2]))]
        exc = [",".join(gen_items(rng, ids)) for _ in range(rng.choice([0, 0, 1, 2]))]
        argv = ["dir"]
        parts = [("--codemod-include", v) for v in inc] + [("--codemod-exclude", v) for v in exc]
        rng.shuffle(parts)
        for o, v in parts:
            argv += [o + "=" + v] if rng.random() < 0.5 else [o, v]
        # argparse would take a value starting with '-' for an option
        if any(v.startswith("-") for _, v in parts):
            continue
        logging.disable(logging.CRITICAL)
        try:
            with contextlib.redirect_stderr(io.StringIO()), contextlib.redirect_stdout(io.StringIO()):
                try:
                    ns = parse_args(argv, real)
                    got = ("ok", ns.codemod_include, ns.codemod_exclude)
                except SystemExit as e:
                    got = ("exit", e.code, None)
        finally:
            logging.disable(logging.NOTSET)
        inc_seq = [v for o, v in parts if o == "--codemod-include"]
        exc_seq = [v for o, v in parts if o == "--codemod-exclude"]
        exp = ("exit", 3, None) if (inc and exc) else ("ok", expected_csv(inc_seq), expected_csv(exc_seq))
        ctx.count("argparse:" + ("conflict" if inc and exc else "ok"))
        ctx.case({"argv": argv, "parsed": got}, nontrivial_key=("argparse", tuple(argv)) if (inc or exc) else None)
        if got == exp:
            continue
        # the reading of the options differs from the contract: a violation of C17 only if the selection changes
        ctx.count("argparse:contract_deviation")
        if got[0] == "ok" and exp[0] == "ok":
            a = call_impl(real, got[1], got[2], False)
            b = call_impl(real, exp[1], exp[2], False)
            if a != b:
                ctx.violation("kf_select_argparse_contract",
                              f"parse_args({argv}) gave include={got[1]} exclude={got[2]} (expected {exp[1]} / {exp[2]}: CSV split, first "
                              f"occurrence kept, last option wins) and the selection changes: {a[1][:6]} vs {b[1][:6]}",
                              {"argv": argv, "observed": got, "expected": exp, "op": "parse_args"})
            else:
                ctx.notes.append(f"argparse contract deviation without effect on the selection: {argv} -> {got} (expected {exp})")
        else:
            # include together with exclude must be refused (exit 3): the status itself is C20's subject
            ctx.notes.append(f"argparse: {argv} -> {got}, expected {exp} (exit status is checked by C20)")
            if got[0] == "ok":
                ctx.mismatch("cli.parse_args vs the argparse oracle contract (include/exclude mutually exclusive)",
                             f"parse_args({argv}) accepted both options: {got}", {"argv": argv, "observed": got, "expected": exp})


# installed in the child from the harness: records the id of every codemod whose _apply is entered, in order
PRELOAD_TRACE = """
try:
    import codemodder.codemods.base_codemod as _bc
    _verif_orig_apply = _bc.BaseCodemod._apply
    def _verif_apply(self, *a, **k):
        with open(%r, "a") as _f:
            _f.write(self.id + "\\n")
        return _verif_orig_apply(self, *a, **k)
    _bc.BaseCodemod._apply = _verif_apply
    open(%r, "a").close()
except Exception:
    open(%r, "a").write("@@WRAP_FAILED@@\\n")
"""


TINY = {"a.py": "x = set([1, 2])\nif x == []:\n    pass\nprint(f'plain')\n"}


def run_e2e(ctx):
    """real CLI runs: the sequence of `running codemod <id>` lines and of results[].codemod"""
    rng = ctx.rng
    real = real_registry()
    rows = rows_of(real)
    ids = [r[0] for r in rows]
    from codemodder.codemods.semgrep import SemgrepRuleDetector
    cheap = [c.id for c in real.codemods if c.origin == "pixee" and not isinstance(getattr(c, "detector", None), SemgrepRuleDetector)]
    sonar = [c.id for c in real.codemods if c.origin == "sonar"]
    proj = ctx.scratch / "e2e_proj"
    core.write_tree(proj, TINY)
    empty_sonar = ctx.scratch / "sonar_issues.json"
    empty_sonar.write_text(json.dumps({"issues": []}))
    empty_hot = ctx.scratch / "sonar_hotspots.json"
    empty_hot.write_text(json.dumps({"hotspots": []}))
    empty_dd = ctx.scratch / "dd.json"
    empty_dd.write_text(json.dumps({"results": []}))

    def all_but(keep):
        return ",".join(i for i in ids if i not in keep)

    plans = []   # (label, extra argv, include csv values, exclude csv values, tool args)
    a, b, c = rng.sample(cheap, 3)
    plans.append(("include:order+unknown+repeat", [], [f"{b},nope,{a},{b},{c}"], [], []))
    stem = a[: len(a) - 3]
    plans.append(("include:overlapping-pattern", [], [f"{a},{stem}*,{a}"], [], []))
    plans.append(("include:suffix-short", [], ["*" + a.split("/")[1][1:-2]], [], []))
    plans.append(("include:repeated-option-last-wins", [], [a, f"{c},{b}"], [], []))
    keep = set(rng.sample(cheap, 3))
    plans.append(("exclude:all-but-3", [], [], [all_but(keep)], []))
    plans.append(("exclude:pattern+names", [], [], ["sonar:*," + ",".join(i for i in ids if i.startswith("pixee:") and i not in keep)], []))
    keep_s = set(rng.sample(sonar, 3)) | {cheap[0]}
    plans.append(("sast:sonar-issues", [], [], [all_but(keep_s)], [("sonar_issues_json", [str(empty_sonar)])]))
    plans.append(("sast:hotspots-only-is-not-sast", [], [], [all_but(keep_s)], [("sonar_hotspots_json", [str(empty_hot)])]))
    if not ctx.quick():
        plans.append(("sast:defectdojo-only-is-not-sast", [], [], [all_but(keep_s)], [("defectdojo_findings_json", [str(empty_dd)])]))
        for _ in range(6):
            k = rng.sample(cheap, 4)
            items = [k[0], cut_pattern(rng, k[1])[0] if rng.random() < 0.3 else k[1], mutate_id(rng, k[2]), k[3], k[0]]
            rng.shuffle(items)
            if any(set(x) & META_CHARS for x in items) or any(x.startswith("-") for x in items):
                continue
            plans.append(("include:random", [], [",".join(items)], [], []))
    OPT = {"sonar_issues_json": "--sonar-issues-json", "sonar_hotspots_json": "--sonar-hotspots-json",
           "defectdojo_findings_json": "--defectdojo-findings-json", "sarif": "--sarif"}

    def one(idx_plan):
        idx, (label, extra, inc, exc, tool) = idx_plan
        out = ctx.scratch / f"e2e_out_{idx}.json"
        argv = [str(proj), "--dry-run", "--output", str(out)] + extra
        for v in inc:
            argv += ["--codemod-include", v]
        for v in exc:
            argv += ["--codemod-exclude", v]
        for d, vals in tool:
            argv += [OPT[d], ",".join(vals)]
        trace = ctx.scratch / f"e2e_trace_{idx}.txt"
        r = core.run_cli(argv, cwd=str(ctx.scratch), hashseed=str(idx % 3), preload=PRELOAD_TRACE % (str(trace), str(trace), str(trace)))
        lines = re.findall(r"^running codemod (\S+)\s*$", r["stdout"], flags=re.M)
        executed = trace.read_text().split("\n")[:-1] if trace.exists() else None
        rep = None
        if out.exists():
            try:
                rep = [x["codemod"] for x in json.loads(out.read_text())["results"]]
            except Exception as e:
                rep = f"unreadable report: {e}"
        return label, {"include_values": inc, "exclude_values": exc, "tool_options": [d for d, _ in tool]}, r, (lines, executed), rep, \
            expected_csv(inc), expected_csv(exc), tool

    with ThreadPoolExecutor(max_workers=min(12, core.NCPU)) as ex:
        results = list(ex.map(one, enumerate(plans)))
    ctx.cli_runs += len(results)
    pool = RegPool()
    cases, meta = [], []
    for label, argv, r, (log_lines, executed), rep, incl, excl, tool in results:
        ctx.count("e2e:" + label.split(":")[0])
        short = argv
        if r["rc"] != 0:
            # the exit status is C20's subject; here a run that did not complete is lost coverage
            ctx.mismatch("end-to-end CLI run did not complete", f"[{label}] CLI exited {r['rc']}: {r['stderr'][-300:]}", {"argv": short, "rc": r["rc"]})
            continue
        # the executed sequence is observed structurally: the harness wraps BaseCodemod._apply in the child and records
        # the id of every codemod applied, in order.  Log text is only cross-checked (its wording is not behaviour).
        if executed is None or executed == ["@@WRAP_FAILED@@"]:
            ctx.mismatch("harness wrapper around BaseCodemod._apply could not be installed",
                         f"[{label}] falling back to results[].codemod of the report", {"argv": short})
            lines = rep if isinstance(rep, list) else log_lines
        else:
            lines = executed
            if log_lines != executed:
                ctx.mismatch("`running codemod <id>` log lines vs the recorded calls of BaseCodemod._apply",
                             f"[{label}] log lines {log_lines[:6]} but applied {executed[:6]} (log wording changed?)",
                             {"argv": short, "log_lines": log_lines, "applied": executed})
        if rep != lines:
            ctx.violation("kf_select_report_differs_from_run", f"[{label}] codemods applied {lines} but results[].codemod of the report {rep}",
                          {"argv": short, "applied": lines, "report": rep})
        cases.append(cpair(pool.name(rows), c_strs(incl), c_strs(excl), c_args(tool), c_strs(lines)))
        meta.append((label, short, lines, incl, excl, tool))
        ctx.case({"e2e": label, "ran": lines}, nontrivial_key=("e2e", json.dumps(argv)) if lines else None, sample=True)
    bad = core.eval_bad_indices(ctx, "c17_e2e", pool.preamble(), "e2e_case", cases, ["e2e_model_ok", "e2e_spec_ok"])
    for i in bad["e2e_model_ok"]:
        label, argv, lines, incl, excl, tool = meta[i]
        ctx.mismatch("CLI run vs Model.Select (match_codemods_model + sast_only_of)", f"[{label}] executed {lines}",
                     {"argv": argv, "observed": lines})
    for i in bad["e2e_spec_ok"]:
        label, argv, lines, incl, excl, tool = meta[i]
        exp = eval_expected(ctx, f"c17_e2e_exp_{i}", pool.preamble(), "e2e_expected", [cases[i]])[0]
        cls = classify(incl, excl, lines, exp)
        ctx.violation(cls, f"[{label}] the CLI executed {lines}, reference selection {exp}",
                      {"argv": argv, "observed": lines, "expected": exp, "op": "cli", "project": core.b64tree(TINY)})


def run(ctx: core.Ctx):
    run_inprocess(ctx)
    run_matchers(ctx)
    run_argparse(ctx)
    run_e2e(ctx)


def replay(ctx, body):
    op = body.get("op", "match_codemods")
    if op == "match_codemods":
        rows = rows_of(real_registry()) if body.get("registry") == "real" else [tuple(r) for r in body["registry"]]
        reg = real_registry() if body.get("registry") == "real" else synthetic_registry(rows)
        st, obs = call_impl(reg, body.get("include"), body.get("exclude"), body.get("sast"))
        print("match_codemods(include=%r, exclude=%r, sast_only=%r)" % (body.get("include"), body.get("exclude"), body.get("sast")))
        print("observed now:", obs)
        print("recorded    :", body.get("observed"))
        print("expected    :", body.get("expected"))
        return 0 if obs == body.get("expected") else 1
    if op == "cli":
        proj = ctx.scratch / "proj"
        core.write_tree(proj, TINY)
        a = body["argv"]
        argv = [str(proj), "--dry-run"]
        for v in a.get("include_values", []):
            argv += ["--codemod-include", v]
        for v in a.get("exclude_values", []):
            argv += ["--codemod-exclude", v]
        for d in a.get("tool_options", []):
            f = ctx.scratch / f"{d}.json"
            f.write_text(json.dumps({"issues": [], "hotspots": [], "results": []}))
            argv += ["--" + d.replace("_", "-"), str(f)]
        r = core.run_cli(argv, cwd=str(ctx.scratch))
        lines = re.findall(r"^running codemod (\S+)\s*$", r["stdout"], flags=re.M)
        print("codemodder", " ".join(argv[1:])[:600])
        print("observed now:", lines, "| expected:", body.get("expected"))
        return 0 if lines == body.get("expected") else 1
    print(json.dumps(body, indent=1)[:3000])
    return 0
