(** Model of the CodeTF report (C15): codemodder/codetf.py (pydantic models, validators, exclude_none serialisation),
    file_context.py (add_failure), codemods/libcst_transformer.py and xml_transformer.py (the guards in front of
    [ChangeSet(...)]), context.py (process_results, process_dependencies, add_description, compile_results),
    utils/update_finding_metadata.py, codemodder.py (apply_codemods, the [if argv.output:] block).
    Definitions only; as written, deviations included. *)
From CM Require Export Base.Str Base.Dict Base.Types_Report.
From Coq Require String.

(* ------------------------------------------------------------------------------------------------ *)
(** * JSON values (structure only: which keys are present, which values; not the text encoding) *)
Inductive json :=
| JNull | JBool (b : bool) | JNum (z : Z) | JStr (s : str) | JArr (l : list json) | JObj (l : list (str * json)).

(* ------------------------------------------------------------------------------------------------ *)
(** * The pydantic models of codetf.py *)
Inductive action := ActAdd | ActRemove.
Inductive pkg_result := PrCompleted | PrFailed | PrSkipped.
Inductive diff_side := SideLeft | SideRight.
Record package_action := { pa_action : action; pa_result : pkg_result; pa_package : str }.
Record rule := { ru_id : str; ru_name : str; ru_url : option str }.
Record finding := { fi_id : str; fi_rule : rule }.
Record unfixed := { uf_id : str; uf_rule : rule; uf_path : str; uf_line : option Z; uf_reason : str }.
Definition props := list (str * json).            (* Optional[dict]: an arbitrary JSON object *)
Record change := { ch_line : Z; ch_desc : option str; ch_side : diff_side; ch_props : option props;
                   ch_pkgs : option (list package_action); ch_findings : option (list finding) }.
Record ai_metadata := { ai_provider : option str; ai_model : option str; ai_tokens : option Z }.
Record changeset := { cs_path : str; cs_diff : str; cs_changes : list change; cs_ai : option ai_metadata }.
Record reference := { rf_url : str; rf_desc : option str }.
Record detection_tool := { dt_name : str }.
Record result := { rs_codemod : str; rs_summary : str; rs_description : str; rs_tool : option detection_tool;
                   rs_refs : option (list reference); rs_props : option props; rs_failed : option (list str);
                   rs_changeset : list changeset; rs_unfixed : option (list unfixed) }.
Record sarif := { sa_artifact : str; sa_sha1 : str }.
Record run := { rn_vendor : str; rn_tool : str; rn_version : str; rn_project : option str; rn_cmdline : str;
                rn_elapsed : option Z; rn_directory : str; rn_sarifs : list sarif }.
Record codetf := { ct_run : run; ct_results : list result }.

(** ** Validators as partial constructors: [None] exactly where pydantic raises ValidationError. *)
Record validators := { v_line : line_validator; v_desc : desc_validator }.
Definition is_nil {A} (l : list A) : bool := match l with [] => true | _ => false end.
Definition line_rejects (v : line_validator) (z : Z) : bool :=
  match v with LineLt b => (z <? b)%Z | LineUnchecked => false end.
Definition desc_rejects (v : desc_validator) (d : option str) : bool :=
  match v, d with DescNonEmptyWhenGiven, Some [] => true | _, _ => false end.
Definition mk_change (V : validators) (line : Z) (desc : option str) (side : diff_side) (pr : option props)
           (pk : option (list package_action)) (fs : option (list finding)) : option change :=
  if line_rejects (v_line V) line || desc_rejects (v_desc V) desc then None
  else Some {| ch_line := line; ch_desc := desc; ch_side := side; ch_props := pr; ch_pkgs := pk; ch_findings := fs |}.

(** [Reference.validate_description]: [self.description = self.description or self.url]. *)
Definition mk_reference (b : ref_backfill) (url : str) (desc : option str) : reference :=
  match b with
  | RefDescOrUrl => {| rf_url := url; rf_desc := Some (match desc with Some (c :: d) => c :: d | _ => url end) |}
  | RefNoBackfill => {| rf_url := url; rf_desc := desc |}
  end.

(** [Finding.to_unfixed_finding]. *)
Definition to_unfixed (path : str) (line : option Z) (reason : str) (f : finding) : unfixed :=
  {| uf_id := fi_id f; uf_rule := fi_rule f; uf_path := path; uf_line := line; uf_reason := reason |}.

(* ------------------------------------------------------------------------------------------------ *)
(** * [model_dump_json(exclude_none=True)]: a key is absent exactly when the field is None. *)
Module Keys.
Import Coq.Strings.String.
Definition k_run := Eval vm_compute in lit "run".
Definition k_results := Eval vm_compute in lit "results".
Definition k_vendor := Eval vm_compute in lit "vendor".
Definition k_tool := Eval vm_compute in lit "tool".
Definition k_version := Eval vm_compute in lit "version".
Definition k_projectName := Eval vm_compute in lit "projectName".
Definition k_commandLine := Eval vm_compute in lit "commandLine".
Definition k_elapsed := Eval vm_compute in lit "elapsed".
Definition k_directory := Eval vm_compute in lit "directory".
Definition k_sarifs := Eval vm_compute in lit "sarifs".
Definition k_artifact := Eval vm_compute in lit "artifact".
Definition k_sha1 := Eval vm_compute in lit "sha1".
Definition k_codemod := Eval vm_compute in lit "codemod".
Definition k_summary := Eval vm_compute in lit "summary".
Definition k_description := Eval vm_compute in lit "description".
Definition k_detectionTool := Eval vm_compute in lit "detectionTool".
Definition k_references := Eval vm_compute in lit "references".
Definition k_properties := Eval vm_compute in lit "properties".
Definition k_failedFiles := Eval vm_compute in lit "failedFiles".
Definition k_changeset := Eval vm_compute in lit "changeset".
Definition k_unfixedFindings := Eval vm_compute in lit "unfixedFindings".
Definition k_name := Eval vm_compute in lit "name".
Definition k_url := Eval vm_compute in lit "url".
Definition k_id := Eval vm_compute in lit "id".
Definition k_rule := Eval vm_compute in lit "rule".
Definition k_path := Eval vm_compute in lit "path".
Definition k_lineNumber := Eval vm_compute in lit "lineNumber".
Definition k_reason := Eval vm_compute in lit "reason".
Definition k_diff := Eval vm_compute in lit "diff".
Definition k_changes := Eval vm_compute in lit "changes".
Definition k_ai := Eval vm_compute in lit "ai".
Definition k_provider := Eval vm_compute in lit "provider".
Definition k_model := Eval vm_compute in lit "model".
Definition k_tokens := Eval vm_compute in lit "tokens".
Definition k_diffSide := Eval vm_compute in lit "diffSide".
Definition k_packageActions := Eval vm_compute in lit "packageActions".
Definition k_findings := Eval vm_compute in lit "findings".
Definition k_action := Eval vm_compute in lit "action".
Definition k_result := Eval vm_compute in lit "result".
Definition k_package := Eval vm_compute in lit "package".
Definition s_add := Eval vm_compute in lit "add".
Definition s_remove := Eval vm_compute in lit "remove".
Definition s_completed := Eval vm_compute in lit "completed".
Definition s_failed := Eval vm_compute in lit "failed".
Definition s_skipped := Eval vm_compute in lit "skipped".
Definition s_left := Eval vm_compute in lit "left".
Definition s_right := Eval vm_compute in lit "right".
Definition r_parse := Eval vm_compute in lit "Failed to parse file".
Definition r_transform := Eval vm_compute in lit "Failed to transform file".
Definition r_parse_xml := Eval vm_compute in lit "Failed to parse XML file".
Definition r_read := Eval vm_compute in lit "Failed to read file".
Definition s_pixee := Eval vm_compute in lit "pixee".
Definition s_codemodder_python := Eval vm_compute in lit "codemodder-python".
End Keys.
Export Keys.

Definition req (k : str) (v : json) : list (str * json) := [(k, v)].
Definition opt {A} (k : str) (f : A -> json) (o : option A) : list (str * json) :=
  match o with Some a => [(k, f a)] | None => [] end.
Definition jlist {A} (f : A -> json) (l : list A) : json := JArr (map f l).

Definition action_str (a : action) : str := match a with ActAdd => s_add | ActRemove => s_remove end.
Definition pkg_result_str (r : pkg_result) : str :=
  match r with PrCompleted => s_completed | PrFailed => s_failed | PrSkipped => s_skipped end.
Definition side_str (d : diff_side) : str := match d with SideLeft => s_left | SideRight => s_right end.

Definition package_action_json (p : package_action) : json :=
  JObj (req k_action (JStr (action_str (pa_action p))) ++ req k_result (JStr (pkg_result_str (pa_result p)))
        ++ req k_package (JStr (pa_package p))).
Definition rule_json (r : rule) : json :=
  JObj (req k_id (JStr (ru_id r)) ++ req k_name (JStr (ru_name r)) ++ opt k_url JStr (ru_url r)).
Definition finding_json (f : finding) : json :=
  JObj (req k_id (JStr (fi_id f)) ++ req k_rule (rule_json (fi_rule f))).
Definition unfixed_json (u : unfixed) : json :=
  JObj (req k_id (JStr (uf_id u)) ++ req k_rule (rule_json (uf_rule u)) ++ req k_path (JStr (uf_path u))
        ++ opt k_lineNumber JNum (uf_line u) ++ req k_reason (JStr (uf_reason u))).
Definition change_json (c : change) : json :=
  JObj (req k_lineNumber (JNum (ch_line c)) ++ opt k_description JStr (ch_desc c)
        ++ req k_diffSide (JStr (side_str (ch_side c))) ++ opt k_properties JObj (ch_props c)
        ++ opt k_packageActions (jlist package_action_json) (ch_pkgs c)
        ++ opt k_findings (jlist finding_json) (ch_findings c)).
Definition ai_json (a : ai_metadata) : json :=
  JObj (opt k_provider JStr (ai_provider a) ++ opt k_model JStr (ai_model a) ++ opt k_tokens JNum (ai_tokens a)).
Definition changeset_json (c : changeset) : json :=
  JObj (req k_path (JStr (cs_path c)) ++ req k_diff (JStr (cs_diff c)) ++ req k_changes (jlist change_json (cs_changes c))
        ++ opt k_ai ai_json (cs_ai c)).
Definition reference_json (r : reference) : json :=
  JObj (req k_url (JStr (rf_url r)) ++ opt k_description JStr (rf_desc r)).
Definition tool_json (t : detection_tool) : json := JObj (req k_name (JStr (dt_name t))).
Definition result_json (r : result) : json :=
  JObj (req k_codemod (JStr (rs_codemod r)) ++ req k_summary (JStr (rs_summary r))
        ++ req k_description (JStr (rs_description r)) ++ opt k_detectionTool tool_json (rs_tool r)
        ++ opt k_references (jlist reference_json) (rs_refs r) ++ opt k_properties JObj (rs_props r)
        ++ opt k_failedFiles (jlist JStr) (rs_failed r) ++ req k_changeset (jlist changeset_json (rs_changeset r))
        ++ opt k_unfixedFindings (jlist unfixed_json) (rs_unfixed r)).
Definition sarif_json (s : sarif) : json :=
  JObj (req k_artifact (JStr (sa_artifact s)) ++ req k_sha1 (JStr (sa_sha1 s))).
Definition run_json (r : run) : json :=
  JObj (req k_vendor (JStr (rn_vendor r)) ++ req k_tool (JStr (rn_tool r)) ++ req k_version (JStr (rn_version r))
        ++ opt k_projectName JStr (rn_project r) ++ req k_commandLine (JStr (rn_cmdline r))
        ++ opt k_elapsed JNum (rn_elapsed r) ++ req k_directory (JStr (rn_directory r))
        ++ req k_sarifs (jlist sarif_json (rn_sarifs r))).
Definition to_json (c : codetf) : json :=
  JObj (req k_run (run_json (ct_run c)) ++ req k_results (jlist result_json (ct_results c))).

(* ------------------------------------------------------------------------------------------------ *)
(** * The run that produces the report *)
Record tool_meta := { tm_name : str; tm_rules : list rule }.        (* ToolMetadata: name, [ToolRule(id, name, url)] *)
Record codemod := { cm_id : str; cm_summary : str; cm_description : str; cm_tool : option tool_meta;
                    cm_refs : list reference }.
Record dep := { dp_name : str; dp_desc : str }.

(** What a transformer did on one file (oracle): the [report_change_for_line] calls in order and the diff of the trees,
    or an exception.  [rq_desc] is the string [description or self.change_description] (libcst; the XML pipeline
    uses the class attribute [change_description] instead). *)
Record change_req := { rq_line : Z; rq_desc : str; rq_findings : list finding }.
Inductive traw := TRaise | TDone (reqs : list change_req) (diff : str).
Record file_run := {
  fr_path : str;                 (* relative to the target directory *)
  fr_has_results : bool;         (* [results is not None] (the codemod has a detector) *)
  fr_findings : list finding;    (* [file_context.get_all_findings()] *)
  fr_parse_ok : bool;            (* reading, decoding and parsing the file succeeds *)
  fr_reported : list unfixed;    (* [report_unfixed] calls made by the transformer *)
  fr_deps : list dep;            (* [add_dependency] calls *)
  fr_raw : traw }.

Record file_ctx := { fc_changesets : list changeset; fc_failures : list str; fc_deps : list dep; fc_unfixed : list unfixed }.
Definition empty_file_ctx : file_ctx := {| fc_changesets := []; fc_failures := []; fc_deps := []; fc_unfixed := [] |}.

(** [FileContext.add_failure(file_path, reason)]: the file is failed and ALL its findings become unfixed with line 0. *)
Definition fail_ctx (fv : failure_variant) (f : file_run) (reason : str) (pre : list unfixed) (deps : list dep) : file_ctx :=
  match fv with
  | FailureLineZero =>
      {| fc_changesets := []; fc_failures := [fr_path f]; fc_deps := deps;
         fc_unfixed := pre ++ map (to_unfixed (fr_path f) (Some 0%Z) reason) (fr_findings f) |}
  end.

Fixpoint build_changes (V : validators) (reqs : list change_req) : option (list change) :=
  match reqs with
  | [] => Some []
  | q :: r =>
      match mk_change V (rq_line q) (Some (rq_desc q)) SideRight None None (Some (rq_findings q)) with
      | None => None
      | Some c => match build_changes V r with None => None | Some cs => Some (c :: cs) end
      end
  end.

Definition libcst_guards_diff (v : libcst_apply_variant) : bool :=
  match v with LibcstGuardChangesDiff => true | LibcstNoDiffGuard => false end.

(** [BaseCodemod._process_file] + [LibcstTransformerPipeline.apply]. *)
Definition libcst_file (lv : libcst_apply_variant) (fv : failure_variant) (V : validators) (f : file_run) : file_ctx :=
  if fr_has_results f && is_nil (fr_findings f) then empty_file_ctx
  else if negb (fr_parse_ok f) then fail_ctx fv f r_parse [] []
  else match fr_raw f with
       | TRaise => fail_ctx fv f r_transform (fr_reported f) (fr_deps f)
       | TDone reqs diff =>
           match build_changes V reqs with
           | None => fail_ctx fv f r_transform (fr_reported f) (fr_deps f)   (* ValidationError raised inside transform *)
           | Some chs =>
               let base := {| fc_changesets := []; fc_failures := []; fc_deps := fr_deps f; fc_unfixed := fr_reported f |} in
               if is_nil chs then base
               else if libcst_guards_diff lv && is_nil diff then base
               else {| fc_changesets := [{| cs_path := fr_path f; cs_diff := diff; cs_changes := chs; cs_ai := None |}];
                       fc_failures := []; fc_deps := fr_deps f; fc_unfixed := fr_reported f |}
           end
       end.

Definition xml_guards_diff (v : xml_apply_variant) : bool :=
  match v with XmlDescOrNoneNoDiffGuard => false | XmlDescOrNoneDiffGuard => true end.

(** [XMLTransformer.add_change]: [description = self.change_description or None]. *)
Definition xml_desc (cd : str) : option str := match cd with [] => None | _ => Some cd end.
Fixpoint xml_changes (V : validators) (cd : str) (reqs : list change_req) : option (list change) :=
  match reqs with
  | [] => Some []
  | q :: r =>
      match mk_change V (rq_line q) (xml_desc cd) SideRight None None (Some (rq_findings q)) with
      | None => None
      | Some c => match xml_changes V cd r with None => None | Some cs => Some (c :: cs) end
      end
  end.

(** [XMLTransformerPipeline.apply]; [cd] is the transformer class's [change_description] ("" in the base class).
    Parse errors and exceptions of the handler (incl. ValidationError) are caught by the same [except]. *)
Definition xml_file (xv : xml_apply_variant) (fv : failure_variant) (V : validators) (cd : str) (f : file_run) : file_ctx :=
  if fr_has_results f && is_nil (fr_findings f) then empty_file_ctx
  else if negb (fr_parse_ok f) then fail_ctx fv f r_parse_xml [] []
  else match fr_raw f with
       | TRaise => fail_ctx fv f r_parse_xml (fr_reported f) (fr_deps f)
       | TDone reqs diff =>
           match xml_changes V cd reqs with
           | None => fail_ctx fv f r_parse_xml (fr_reported f) (fr_deps f)
           | Some chs =>
               let base := {| fc_changesets := []; fc_failures := []; fc_deps := fr_deps f; fc_unfixed := fr_reported f |} in
               if is_nil chs then base
               else if xml_guards_diff xv && is_nil diff then base
               else {| fc_changesets := [{| cs_path := fr_path f; cs_diff := diff; cs_changes := chs; cs_ai := None |}];
                       fc_failures := []; fc_deps := fr_deps f; fc_unfixed := fr_reported f |}
           end
       end.

(** [RegexTransformerPipeline._apply] / [SastRegexTransformerPipeline._apply]: one
    [Change(lineNumber=lineno + 1, description=self.change_description, findings=…)] per rewritten line
    ([rq_line] = lineno + 1, [rq_findings] = [get_findings_for_location]; [rq_desc] is not used). *)
Fixpoint regex_changes (V : validators) (cd : str) (reqs : list change_req) : option (list change) :=
  match reqs with
  | [] => Some []
  | q :: r =>
      match mk_change V (rq_line q) (Some cd) SideRight None None (Some (rq_findings q)) with
      | None => None
      | Some c => match regex_changes V cd r with None => None | Some cs => Some (c :: cs) end
      end
  end.

(** [RegexTransformerPipeline.apply].  Pinned tree: NO failure handling, an undecodable file, an exception of [_apply] or a
    ValidationError of [Change(...)] leaves [apply] and aborts the whole run (no report: outside C15's quantifier; DESIGN §6
    row 21).  Repaired: both are caught and recorded with [add_failure].  [regex_aborts] says when the run aborts; the
    value of [regex_file] is meaningful only when it is false.
    Only [if not changes: return None]; the diff is not tested (a rewritten line always differs, so [create_diff] is
    non-empty: contract of difflib, premise [regex_diff_contract] of the laws). *)
Definition regex_handles (rv : regex_apply_variant) : bool :=
  match rv with RegexNoFailureHandling => false | RegexFailureHandled => true end.
Definition regex_aborts (rv : regex_apply_variant) (V : validators) (cd : str) (f : file_run) : bool :=
  if regex_handles rv then false
  else if fr_has_results f && is_nil (fr_findings f) then false
  else negb (fr_parse_ok f) ||
       match fr_raw f with
       | TRaise => true
       | TDone reqs _ => match regex_changes V cd reqs with None => true | Some _ => false end
       end.
Definition regex_file (rv : regex_apply_variant) (fv : failure_variant) (V : validators) (cd : str) (f : file_run) : file_ctx :=
  if fr_has_results f && is_nil (fr_findings f) then empty_file_ctx
  else if negb (fr_parse_ok f) then (if regex_handles rv then fail_ctx fv f r_read [] [] else empty_file_ctx)
  else
    let failed := if regex_handles rv then fail_ctx fv f r_transform (fr_reported f) (fr_deps f) else empty_file_ctx in
    match fr_raw f with
    | TRaise => failed
    | TDone reqs diff =>
        match regex_changes V cd reqs with
        | None => failed
        | Some chs =>
            let base := {| fc_changesets := []; fc_failures := []; fc_deps := fr_deps f; fc_unfixed := fr_reported f |} in
            if is_nil chs then base
            else {| fc_changesets := [{| cs_path := fr_path f; cs_diff := diff; cs_changes := chs; cs_ai := None |}];
                    fc_failures := []; fc_deps := fr_deps f; fc_unfixed := fr_reported f |}
        end
    end.

(** The tables the pipeline model depends on. *)
Record tables := { t_libcst : libcst_apply_variant; t_xml : xml_apply_variant; t_regex : regex_apply_variant;
                   t_fail : failure_variant; t_val : validators }.

Inductive pipe_kind := PLibcst | PXml (change_description : str) | PRegex (change_description : str).
Definition pipe_file (T : tables) (p : pipe_kind) (f : file_run) : file_ctx :=
  match p with
  | PLibcst => libcst_file (t_libcst T) (t_fail T) (t_val T) f
  | PXml cd => xml_file (t_xml T) (t_fail T) (t_val T) cd f
  | PRegex cd => regex_file (t_regex T) (t_fail T) (t_val T) cd f
  end.
(** an exception leaves the pipeline: the run does not complete (no report is written) *)
Definition pipe_aborts (T : tables) (p : pipe_kind) (f : file_run) : bool :=
  match p with
  | PLibcst | PXml _ => false
  | PRegex cd => regex_aborts (t_regex T) (t_val T) cd f
  end.

(** ** context.py aggregates (dicts keyed by codemod id, insertion ordered) *)
Definition getl {A} (k : str) (d : dict str (list A)) : list A :=
  match dget str_eqb k d with Some l => l | None => [] end.
(** [d.setdefault(k, []).extend(l)] *)
Definition extend {A} (k : str) (l : list A) (d : dict str (list A)) : dict str (list A) :=
  dset str_eqb k (getl k d ++ l) d.

Definition dep_eqb (a b : dep) : bool := str_eqb (dp_name a) (dp_name b).
Fixpoint dep_union (s : list dep) (l : list dep) : list dep :=      (* [set.update]; a set of Dependency hashed by requirement *)
  match l with
  | [] => s
  | d :: r => if existsb (dep_eqb d) s then dep_union s r else dep_union (s ++ [d]) r
  end.

Record ctx := { cx_changesets : dict str (list changeset); cx_failures : dict str (list str);
                cx_unfixed : dict str (list unfixed); cx_deps : dict str (list dep);
                cx_dep_update : dict str (option str) }.
Definition empty_ctx : ctx :=
  {| cx_changesets := []; cx_failures := []; cx_unfixed := []; cx_deps := []; cx_dep_update := [] |}.

Definition add_file_ctx (id : str) (c : ctx) (fc : file_ctx) : ctx :=
  {| cx_changesets := extend id (fc_changesets fc) (cx_changesets c);
     cx_failures := extend id (fc_failures fc) (cx_failures c);
     cx_unfixed := extend id (fc_unfixed fc) (cx_unfixed c);
     cx_deps := dset str_eqb id (dep_union (getl id (cx_deps c)) (fc_deps fc)) (cx_deps c);
     cx_dep_update := cx_dep_update c |}.
(** [CodemodExecutionContext.process_results] *)
Definition process_results (id : str) (fcs : list file_ctx) (c : ctx) : ctx := fold_left (add_file_ctx id) fcs c.

(** [process_dependencies]: [stores] is, per package store of the project in order, its type name and what
    [DependencyManager(store).write(dependencies)] returns (oracle). *)
Fixpoint first_store (stores : list (str * option changeset)) : option (str * changeset) :=
  match stores with
  | [] => None
  | (ty, Some cs) :: _ => Some (ty, cs)
  | (_, None) :: r => first_store r
  end.
Definition process_dependencies (id : str) (stores : list (str * option changeset)) (c : ctx) : ctx :=
  if is_nil (getl id (cx_deps c)) then c
  else if is_nil stores then
    {| cx_changesets := cx_changesets c; cx_failures := cx_failures c; cx_unfixed := cx_unfixed c; cx_deps := cx_deps c;
       cx_dep_update := dset str_eqb id None (cx_dep_update c) |}
  else match first_store stores with
       | None => c
       | Some (ty, cs) =>
           {| cx_changesets := extend id [cs] (cx_changesets c); cx_failures := cx_failures c; cx_unfixed := cx_unfixed c;
              cx_deps := cx_deps c; cx_dep_update := dset str_eqb id (Some ty) (cx_dep_update c) |}
       end.

(** One codemod of [codemods_to_run] with everything its execution depends on. *)
Record cm_run := {
  cr_cm : codemod;
  cr_pipe : pipe_kind;
  cr_files : option (list file_run);            (* None: [_apply] returned before [process_results] (no results, no files, …) *)
  cr_stores : list (str * option changeset);
  cr_note_ok : str;                             (* build_dependency_notification(store type, first dependency) *)
  cr_note_fail : str }.                         (* build_failed_dependency_notification(first dependency) *)

Definition apply_codemod (T : tables) (c : ctx) (r : cm_run) : ctx :=
  let id := cm_id (cr_cm r) in
  let c1 := match cr_files r with
            | None => c
            | Some fs => process_results id (map (pipe_file T (cr_pipe r)) fs) c
            end in
  process_dependencies id (cr_stores r) c1.

(** [codemodder.apply_codemods]: nothing runs when there is no file to analyse or no codemod. *)
Definition apply_codemods (av : apply_codemods_variant) (T : tables) (no_files : bool) (runs : list cm_run) : ctx :=
  match av with
  | ApplyEarlyReturnThenLoop => if no_files then empty_ctx else fold_left (apply_codemod T) runs empty_ctx
  end.

(** [update_finding_metadata]: a dict comprehension (the last rule with a given id wins), keyed by [finding.id]. *)
Definition rule_lookup (id : str) (rules : list rule) : option rule :=
  find (fun r => str_eqb id (ru_id r)) (rev rules).
Definition update_finding (rules : list rule) (f : finding) : finding :=
  match rule_lookup (fi_id f) rules with
  | Some r => {| fi_id := fi_id f; fi_rule := {| ru_id := ru_id (fi_rule f); ru_name := ru_name r; ru_url := ru_url r |} |}
  | None => f
  end.
Definition update_change (rules : list rule) (c : change) : change :=
  {| ch_line := ch_line c; ch_desc := ch_desc c; ch_side := ch_side c; ch_props := ch_props c; ch_pkgs := ch_pkgs c;
     ch_findings := option_map (map (update_finding rules)) (ch_findings c) |}.
Definition update_changeset (rules : list rule) (c : changeset) : changeset :=
  {| cs_path := cs_path c; cs_diff := cs_diff c; cs_changes := map (update_change rules) (cs_changes c); cs_ai := cs_ai c |}.
Definition update_finding_metadata (uv : update_meta_variant) (rules : list rule) (css : list changeset) : list changeset :=
  match uv with
  | UpdateByFindingId => if is_nil rules then css else map (update_changeset rules) css
  end.

(** [add_description] *)
Definition add_description (c : ctx) (r : cm_run) : str :=
  let id := cm_id (cr_cm r) in
  cm_description (cr_cm r) ++
  match getl id (cx_deps c) with
  | [] => []
  | _ :: _ => match dget str_eqb id (cx_dep_update c) with
              | Some (Some _) => cr_note_ok r
              | _ => cr_note_fail r
              end
  end.

(** [str(file)] of a failure: the path as found under the target directory. *)
Definition slash : str := [47%N].
Definition abs_of (dir rel : str) : str := if str_eqb dir [46%N] then rel else dir ++ slash ++ rel.

Definition tool_rules (cm : codemod) : list rule := match cm_tool cm with Some t => tm_rules t | None => [] end.

(** [compile_results]: one Result per codemod of [codemods_to_run], in order. *)
Definition compile_result (uv : update_meta_variant) (dir : str) (c : ctx) (r : cm_run) : result :=
  let cm := cr_cm r in
  {| rs_codemod := cm_id cm; rs_summary := cm_summary cm; rs_description := add_description c r;
     rs_tool := option_map (fun t => {| dt_name := tm_name t |}) (cm_tool cm);
     rs_refs := Some (cm_refs cm); rs_props := Some [];
     rs_failed := Some (map (abs_of dir) (getl (cm_id cm) (cx_failures c)));
     rs_changeset := update_finding_metadata uv (tool_rules cm) (getl (cm_id cm) (cx_changesets c));
     rs_unfixed := Some (getl (cm_id cm) (cx_unfixed c)) |}.
Definition compile_results (cv : compile_variant) (uv : update_meta_variant) (dir : str) (c : ctx) (runs : list cm_run) : list result :=
  match cv with CompileOnePerCodemodInOrder => map (compile_result uv dir c) runs end.

(** [CodeTF.build] *)
Fixpoint join_sp (l : list str) : str :=
  match l with [] => [] | [x] => x | x :: r => x ++ [32%N] ++ join_sp r end.
Record invocation := { iv_version : str; iv_command : str; iv_args : list str; iv_elapsed : Z; iv_dir : str; iv_absdir : str }.
Definition build (bv : build_variant) (iv : invocation) (results : list result) : codetf :=
  match bv with
  | BuildRunExcludeNone =>
      {| ct_run := {| rn_vendor := s_pixee; rn_tool := s_codemodder_python; rn_version := iv_version iv; rn_project := None;
                      rn_cmdline := iv_command iv ++ [32%N] ++ join_sp (iv_args iv); rn_elapsed := Some (iv_elapsed iv);
                      rn_directory := iv_absdir iv; rn_sarifs := [] |};
         ct_results := results |}
  end.

(** The variants of the fragments outside the per-file pipelines. *)
Record rtables := { t_pipe : tables; t_apply : apply_codemods_variant; t_compile : compile_variant;
                    t_update : update_meta_variant; t_build : build_variant }.

(** The whole of [run] from [apply_codemods] to the document written by [write_report] (when [--output] is given). *)
Definition report (R : rtables) (iv : invocation) (no_files : bool) (runs : list cm_run) : codetf :=
  let c := apply_codemods (t_apply R) (t_pipe R) no_files runs in
  build (t_build R) iv (compile_results (t_compile R) (t_update R) (iv_dir iv) c runs).

(** [None]: an exception left a pipeline without failure handling (regex), the run aborted and no report was written. *)
Definition run_aborts (T : tables) (r : cm_run) : bool :=
  match cr_files r with None => false | Some fs => existsb (pipe_aborts T (cr_pipe r)) fs end.
Definition report_opt (R : rtables) (iv : invocation) (no_files : bool) (runs : list cm_run) : option codetf :=
  if negb no_files && existsb (run_aborts (t_pipe R)) runs then None else Some (report R iv no_files runs).
