class LimitReadline:
    def on_result_found(self, _, updated_node):
        return self.update_arg_target(updated_node, [cst.Integer(default_limit)])

