From CM Require Import Base.Dict Proofs.DictFacts Model.ResultSet Spec.ResultSetSpec.
From Coq Require Import Permutation.

Local Notation sget := (dget str_eqb).
Local Notation shas := (dhas str_eqb).

Lemma shas_false_getl {V} k (d : dict str (list V)) : shas k d = false -> getl k d = [].
Proof. unfold dhas, getl. destruct (sget k d); [discriminate|reflexivity]. Qed.
Lemma shas_false_getd k (R : rs) : shas k R = false -> getd k R = [].
Proof. unfold dhas, getd. destruct (sget k R); [discriminate|reflexivity]. Qed.

Lemma getl_ldo_total p (a b : fdict) : getl p (ldo_total a b) = getl p a ++ getl p b.
Proof.
  unfold ldo_total, getl at 1. rewrite (dget_dmapk str_eqb str_eqb_spec).
  rewrite (dhas_dupdate str_eqb str_eqb_spec).
  destruct (shas p b) eqn:Eb; destruct (shas p a) eqn:Ea; simpl; try reflexivity.
  now rewrite (shas_false_getl _ _ Ea), (shas_false_getl _ _ Eb).
Qed.

Lemma getd_or_total k (A B : rs) :
  sget k (or_total A B) = if shas k A || shas k B then Some (ldo_total (getd k A) (getd k B)) else None.
Proof.
  unfold or_total. rewrite (dget_dmapk str_eqb str_eqb_spec).
  now rewrite (dhas_dupdate str_eqb str_eqb_spec).
Qed.

Lemma lookup_or_total A B k p : lookup (or_total A B) k p = union_spec A B k p.
Proof.
  unfold union_spec, lookup, getd at 1. rewrite getd_or_total.
  destruct (shas k A) eqn:Ea; destruct (shas k B) eqn:Eb; simpl; try apply getl_ldo_total.
  now rewrite (shas_false_getd _ _ Ea), (shas_false_getd _ _ Eb).
Qed.

Lemma dhas_rev {V} k (d : dict str V) : shas k (rev d) = shas k d.
Proof.
  unfold dhas. destruct (sget k d) eqn:E.
  - destruct (sget k (rev d)) eqn:E2; [reflexivity|].
    apply (proj1 (dget_rev_some_iff str_eqb str_eqb_spec k d)) in E2. congruence.
  - apply (proj2 (dget_rev_some_iff str_eqb str_eqb_spec k d)) in E. now rewrite E.
Qed.

Lemma dget_rev_dmapk {V} k (f : str -> V) (d : dict str V) :
  sget k (rev (dmapk f d)) = if shas k d then Some (f k) else None.
Proof.
  unfold dmapk. rewrite <- map_rev.
  change (sget k (dmapk f (rev d)) = if shas k d then Some (f k) else None).
  rewrite (dget_dmapk str_eqb str_eqb_spec). now rewrite dhas_rev.
Qed.

Lemma sget_ior_total k (A B : rs) : sget k (rs_ior TotalOrWithIor A B) = sget k (or_total A B).
Proof.
  simpl. rewrite (dget_dupdate str_eqb str_eqb_spec).
  unfold or_total at 1. rewrite dget_rev_dmapk.
  rewrite getd_or_total. rewrite (dhas_dupdate str_eqb str_eqb_spec).
  destruct (shas k A) eqn:Ea; simpl; [reflexivity|].
  destruct (shas k B); [reflexivity|].
  unfold dhas in Ea. destruct (sget k A); [discriminate|reflexivity].
Qed.

Lemma lookup_ior_total A B k p : lookup (rs_ior TotalOrWithIor A B) k p = union_spec A B k p.
Proof.
  rewrite <- lookup_or_total. unfold lookup, getd. now rewrite sget_ior_total.
Qed.

Lemma lookup_fold_total Rs : forall R0 k p,
  lookup (fold_left (rs_ior TotalOrWithIor) Rs R0) k p = lookup R0 k p ++ family_spec Rs k p.
Proof.
  induction Rs as [|R Rs IH]; intros R0 k p; cbn [fold_left].
  - unfold family_spec. simpl. now rewrite app_nil_r.
  - rewrite IH, lookup_ior_total. unfold union_spec, family_spec. simpl. now rewrite app_assoc.
Qed.

Lemma lookup_nil k p : lookup [] k p = [].
Proof. reflexivity. Qed.

Lemma lookup_combine_total Rs k p : lookup (combine_files TotalOrWithIor Rs) k p = family_spec Rs k p.
Proof. unfold combine_files. now rewrite lookup_fold_total. Qed.

Lemma family_spec_perm Rs Rs' k p : Permutation Rs Rs' -> Permutation (family_spec Rs k p) (family_spec Rs' k p).
Proof.
  intros HP. unfold family_spec. induction HP; simpl.
  - constructor.
  - now apply Permutation_app_head.
  - rewrite !app_assoc. apply Permutation_app_tail. apply Permutation_app_comm.
  - eapply Permutation_trans; eassumption.
Qed.

(** add_result *)
Lemma lookup_add_one r R f k p :
  lookup (add_one r R f) k p =
  lookup R k p ++ (if str_eqb k (rrule r) && str_eqb p f then [r] else []).
Proof.
  unfold add_one, lookup.
  destruct (str_eqb_spec k (rrule r)) as [->|Hk]; simpl.
  - unfold getd at 1. rewrite (dget_dset_same str_eqb str_eqb_spec).
    destruct (str_eqb_spec p f) as [->|Hp].
    + unfold getl at 1. now rewrite (dget_dset_same str_eqb str_eqb_spec).
    + unfold getl at 1. rewrite (dget_dset_other str_eqb str_eqb_spec) by exact Hp.
      now rewrite app_nil_r.
  - unfold getd at 1. rewrite (dget_dset_other str_eqb str_eqb_spec) by exact Hk.
    now rewrite app_nil_r.
Qed.

Definition occs (r : res) (k p : str) (fs : list str) : list res :=
  if str_eqb k (rrule r) then repeat r (count_occ (list_eq_dec N.eq_dec) fs p) else [].

Lemma lookup_add_files r fs : forall R k p,
  lookup (fold_left (add_one r) fs R) k p = lookup R k p ++ occs r k p fs.
Proof.
  unfold occs. induction fs as [|f fs IH]; intros R k p; cbn [fold_left].
  - simpl. destruct (str_eqb k (rrule r)); now rewrite app_nil_r.
  - rewrite IH, lookup_add_one. rewrite <- app_assoc. f_equal.
    destruct (str_eqb k (rrule r)); simpl; [|reflexivity].
    destruct (list_eq_dec N.eq_dec f p) as [->|Hne].
    + now rewrite str_eqb_refl.
    + destruct (str_eqb_spec p f); [congruence|reflexivity].
Qed.

Lemma lookup_add_result R r k p : lookup (add_result R r) k p = lookup R k p ++ occs r k p (rfiles r).
Proof. apply lookup_add_files. Qed.

Lemma lookup_of_results_gen l : forall R k p,
  lookup (fold_left add_result l R) k p = lookup R k p ++ concat (map (fun r => occs r k p (rfiles r)) l).
Proof.
  induction l as [|r l IH]; intros R k p; cbn [fold_left]; simpl.
  - now rewrite app_nil_r.
  - rewrite IH, lookup_add_result. now rewrite app_assoc.
Qed.

(** The as-is code (pinned tree) violates the union law: witnesses. *)
Definition w_r1 : res := {| rid := 1; rrule := [114; 49]%N; rfiles := [[97]%N] |}.
Definition w_r2 : res := {| rid := 2; rrule := [114; 49]%N; rfiles := [[98]%N] |}.
Definition w_r3 : res := {| rid := 3; rrule := [114; 50]%N; rfiles := [[97]%N] |}.

Lemma or_asis_disjoint_rules_keyerr : or_asis (of_results [w_r1]) (of_results [w_r3]) = KeyErr.
Proof. vm_compute. reflexivity. Qed.
Lemma or_asis_disjoint_files_keyerr : or_asis (of_results [w_r1]) (of_results [w_r2]) = KeyErr.
Proof. vm_compute. reflexivity. Qed.
Lemma ior_asis_loses :
  lookup (rs_ior AsIsNoIor (of_results [w_r1]) (of_results [w_r2])) [114; 49]%N [97]%N
  <> union_spec (of_results [w_r1]) (of_results [w_r2]) [114; 49]%N [97]%N.
Proof. vm_compute. discriminate. Qed.
