class RegexTransformerPipeline:
    def apply(
        self,
        context: CodemodExecutionContext,
        file_context: FileContext,
        results: list[Result] | None,
    ) -> ChangeSet | None:

        original_lines = (
            file_context.file_path.read_bytes()
            .decode("utf-8")
            .splitlines(keepends=True)
        )

        changes, updated_lines = self._apply(original_lines, file_context, results)

        if not changes:
            logger.debug("No changes produced for %s", file_context.file_path)
            return None

        diff = create_diff(original_lines, updated_lines)

        if not context.dry_run:
            file_context.file_path.write_bytes("".join(updated_lines).encode("utf-8"))

        return ChangeSet(
            path=str(file_context.file_path.relative_to(context.directory)),
            diff=diff,
            changes=changes,
        )
