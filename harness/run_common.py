"""Shared pieces of the C04 / C09 / C10 correspondence checks (orchestration model, coq/Model/Run.v):
trigger snippets per codemod, project generator, real-CLI driver, abstraction of an observed run into a Coq `hcase`."""
from __future__ import annotations

import json
import shutil
from concurrent.futures import ThreadPoolExecutor
from pathlib import Path

from harness import core
from harness.core import cN, cZ, cbool, clist, cpair

IMPORTS = "From CM Require Import Harness.RunBase Harness.Run_run Model.Run Base.Types_Run.\n"

# codemod id -> (detector kind, [trigger snippets]); every snippet is changed by the codemod when alone in a file
P = "pixee:python/"
SNIPPETS = {
    P + "use-set-literal": ("none", ["x = set([1, 2, 3])\n", "def f(a):\n    return set([a, a + 1])\n"]),
    P + "use-generator": ("none", ["ok = any([i > 1 for i in range(4)])\n", "def g(v):\n    return all([x for x in v])\n"]),
    P + "remove-unnecessary-f-str": ("none", ["s = f\"plain\"\n", "def h():\n    return f'abc'\n"]),
    P + "fix-assert-tuple": ("none", ["assert (1 == 1, 2 == 2)\n"]),
    P + "fix-mutable-params": ("none", ["def m(a, b=[]):\n    b.append(a)\n    return b\n"]),
    P + "secure-tempfile": ("none", ["import tempfile\n\nname = tempfile.mktemp()\n"]),
    P + "harden-pickle-load": ("none", ["import pickle\n\ndata = pickle.load(open('d.bin', 'rb'))\n"]),
    P + "use-defusedxml": ("none", ["from xml.etree.ElementTree import parse\n\net = parse('user_input.xml')\n"]),
    P + "flask-enable-csrf-protection": ("none", ["from flask import Flask\n\napp = Flask(__name__)\n"]),
    P + "add-requests-timeouts": ("semgrep", ["import requests\n\nr = requests.get(\"https://example.com\")\n"]),
    P + "url-sandbox": ("semgrep", ["import requests\nimport sys\n\nr = requests.get(sys.argv[1])\n"]),
    P + "secure-random": ("semgrep", ["import random\n\nv = random.random()\n"]),
    P + "harden-pyyaml": ("semgrep", ["import yaml\n\nd = yaml.load(open('c.yml'), yaml.Loader)\n"]),
    P + "requests-verify": ("semgrep", ["import requests\n\nr = requests.get(\"https://example.com\", verify=False)\n"]),
    P + "sandbox-process-creation": ("semgrep", ["import subprocess\nimport sys\n\nsubprocess.run(sys.argv[1])\n"]),
}
DEPS = {
    P + "harden-pickle-load": "fickling",
    P + "use-defusedxml": "defusedxml",
    P + "flask-enable-csrf-protection": "flask-wtf",
    P + "url-sandbox": "security",
    P + "sandbox-process-creation": "security",
}
LIBCST_ONLY = [k for k, (d, _) in SNIPPETS.items() if d == "none"]
SEMGREP = [k for k, (d, _) in SNIPPETS.items() if d == "semgrep"]
NEUTRAL = ["def helper(z):\n    return z * 2\n", "VALUE = 41 + 1\n", "class Thing:\n    size = 3\n"]

MANIFESTS = {
    "requirements.txt": "requests\nclick>=8\n",
    "pyproject.toml": "[project]\nname = \"demo\"\nversion = \"0.1\"\ndependencies = [\n    \"requests\",\n]\n",
    "setup.py": "from setuptools import setup\n\nsetup(\n    name=\"demo\",\n    install_requires=[\n        \"requests\",\n    ],\n)\n",
    "setup.cfg": "[metadata]\nname = demo\n\n[options]\ninstall_requires =\n    requests\n    click\n",
}
SKIND = {"requirements.txt": "SReqTxt", "pyproject.toml": "SToml", "setup.py": "SSetupPy", "setup.cfg": "SSetupCfg"}
# order of PythonRepoManager._potential_stores
STORE_ORDER = ["pyproject.toml", "setup.py", "requirements.txt", "setup.cfg"]
FILE_NAMES = ["a.py", "b.py", "src/c.py", "src/pkg/d.py", "e.py", "lib/f.py"]


def gen_project(rng, codemods, nfiles, manifests=()):
    """nfiles python files, each the concatenation of 1-2 snippets (triggers of the given codemods or neutral code)."""
    files = {}
    names = FILE_NAMES[:nfiles]
    for i, name in enumerate(names):
        parts = []
        k = codemods[i % len(codemods)] if (i < len(codemods) or rng.random() < 0.6) else None
        if k is not None:
            parts.append(rng.choice(SNIPPETS[k][1]))
        if rng.random() < 0.5 or not parts:
            parts.append(rng.choice(NEUTRAL))
        # imports first: keep snippets that start with an import at the top
        parts.sort(key=lambda s: 0 if s.startswith(("import", "from")) else 1)
        files[name] = "".join(parts)
    for m in manifests:
        files[m] = MANIFESTS[m]
    return files


def py_files(files):
    """find_and_fix_paths of a generated project under the default patterns: sorted relative paths of the *.py files"""
    return sorted(p for p in files if p.endswith(".py"))


class Runner:
    """Runs the real CLI on scratch copies; counts runs."""

    def __init__(self, ctx):
        self.ctx = ctx
        self.n = 0

    def fresh_dir(self, tag):
        self.n += 1
        d = self.ctx.scratch / f"p{self.n}_{tag}"
        d.mkdir(parents=True)
        return d

    def run(self, root: Path, codemods, extra=(), preload=None, timeout=300):
        out = root.parent / (root.name + ".codetf.json")
        if out.exists():
            out.unlink()
        args = [str(root), "--output", str(out), "--codemod-include", ",".join(codemods), *extra]
        r = core.run_cli(args, preload=preload, timeout=timeout)
        rep = None
        if out.exists():
            try:
                rep = json.loads(out.read_text())
            except Exception:
                rep = "INVALID-JSON"
        self.ctx.cli_runs += 1
        return {"rc": r["rc"], "report": rep, "stderr": r["stderr"][-1500:], "args": args[1:]}


def parallel(jobs, workers=12):
    """jobs: list of zero-argument callables; returns their results in order"""
    with ThreadPoolExecutor(max_workers=workers) as ex:
        futs = [ex.submit(j) for j in jobs]
        return [f.result() for f in futs]


def rows_of_report(rep, root: Path):
    """per result, in order: (codemod id, [change-set paths], [failed files relative to the target], description)"""
    rows = []
    for res in rep.get("results", []):
        failed = []
        for f in res.get("failedFiles", []):
            try:
                failed.append(str(Path(f).relative_to(root)))
            except ValueError:
                failed.append(f)
        rows.append({"codemod": res["codemod"], "changed": [c["path"] for c in res.get("changeset", [])],
                     "diffs": [c["diff"] for c in res.get("changeset", [])],
                     "changes": [[(x.get("lineNumber"), x.get("description")) for x in c.get("changes", [])] for c in res.get("changeset", [])],
                     "failed": failed, "description": res.get("description"),
                     "unfixed": res.get("unfixedFindings", [])})
    return rows


class Abstr:
    """contents and paths as small numbers (stable within one case)"""

    def __init__(self):
        self.c, self.p, self.k = {}, {}, {}

    def content(self, b):
        if isinstance(b, str):
            b = b.encode()
        return self.c.setdefault(b, len(self.c) + 1)

    def path(self, p):
        return self.p.setdefault(str(p), len(self.p) + 1)

    def codemod(self, k):
        return self.k.setdefault(k, len(self.k) + 1)


def c_hcodemod(a: Abstr, k, det, T, raise_on=(), flag=(), pipe="PLibcst", base="FindAndFix", R=()):
    """T: list of (content id, new content id, [dep ids]); R: list of (path id, [finding ids]) for SAST-driven codemods"""
    t = clist([cpair(cN(x), cpair(cN(y), clist([cN(d) for d in ds], "N"))) for x, y, ds in T], "N * (N * list N)")
    r = clist([cpair(cN(p), clist([cN(x) for x in fs], "N")) for p, fs in R], "N * list N")
    return ("{| hc_id := %s; hc_pipe := %s; hc_base := %s; hc_det := %s; hc_R := %s; hc_T := %s; hc_raise := %s; hc_flag := %s |}"
            % (cN(a.codemod(k)), pipe, base, det, r, t, clist([cN(x) for x in raise_on], "N"), clist([cN(x) for x in flag], "N")))


def c_hcase(dry, files, fs, bad, codemods, stores, W, status, ob_fs, ob_rows):
    return ("{| hx_dry := %s; hx_files := %s; hx_fs := %s; hx_bad := %s; hx_codemods := %s; hx_stores := %s; hx_W := %s; "
            "ob_status := %s; ob_fs := %s; ob_rows := %s |}" % (
                cbool(dry), clist([cN(x) for x in files], "N"),
                clist([cpair(cN(p), cN(c)) for p, c in fs], "N * N"), clist([cN(x) for x in bad], "N"),
                clist(codemods, "hcodemod"),
                clist([cpair(cpair(k, cN(p)), clist([cN(d) for d in ds], "N")) for k, p, ds in stores], "skind * N * list N"),
                clist([cpair(cpair(cN(c), clist([cN(d) for d in ds], "N")), cN(n)) for c, ds, n in W], "N * list N * N"),
                cZ(status), clist([cpair(cN(p), cN(c)) for p, c in ob_fs], "N * N"),
                clist([cpair(cpair(cpair(cN(r[0]), clist([cN(x) for x in r[1]], "N")), clist([cN(x) for x in r[2]], "N")),
                             clist([cN(x) for x in (r[3] if len(r) > 3 else [])], "N")) for r in ob_rows],
                      "N * list N * list N * list N")))


def unfixed_paths(row):
    """paths of the unfixedFindings of a report row, in order"""
    return [u.get("path") for u in row.get("unfixed", [])]


def copy_tree(src: Path, dst: Path):
    shutil.copytree(src, dst, symlinks=True)


def det_of(k):
    if k.startswith("sonar:"):
        return "DSast"
    return "DSemgrep" if SNIPPETS.get(k, ("none",))[0] == "semgrep" else "DNone"


# ---- SAST-driven (Sonar) codemods: rule id, a snippet with the reported site, and (line offset in snippet, startOffset, endOffset)
SONAR = {
    "sonar:python/fix-assert-tuple": ("python:S5905", "assert (1 == 1, 'msg')\nx = 1\n", (1, 7, 22)),
    "sonar:python/numpy-nan-equality": ("python:S6725", "import numpy as np\n\nif a == np.nan:\n    pass\n", (3, 3, 14)),
}


def sonar_issues(files):
    """the Sonar issues file of a generated project: one OPEN issue per occurrence of a SONAR snippet (at the head of a file)"""
    issues = []
    for path in sorted(files):
        text = files[path] if isinstance(files[path], str) else ""
        for k, (rule, snip, (line, so, eo)) in SONAR.items():
            if text.startswith(snip):
                issues.append({"key": f"ISSUE-{len(issues) + 1}", "rule": rule, "status": "OPEN", "component": f"proj:{path}", "message": "m",
                               "textRange": {"startLine": line, "endLine": line, "startOffset": so, "endOffset": eo}})
    return {"issues": issues}


def sonar_findings(files, k):
    """path -> number of issues of codemod k's rule"""
    rule = SONAR[k][0]
    out = {}
    for i in sonar_issues(files)["issues"]:
        if i["rule"] == rule:
            p = i["component"].split(":", 1)[1]
            out[p] = out.get(p, 0) + 1
    return out


LIFT_THEOREMS = ["C03_unchanged", "C01_lift", "C02_lift", "C07_quiet_run", "C07_lift"]


def audit_lifts(ctx):
    """Proofs/RunLift.v is cited by C01/C02/C07/C03: its theorems must be closed too (Print Assumptions read back)."""
    lines = ["From CM Require Import Proofs.RunLift."]
    for t in LIFT_THEOREMS:
        lines.append(f'Goal True. idtac "@@BEGIN {t}". exact I. Qed.')
        lines.append(f"Print Assumptions {t}.")
        lines.append(f'Goal True. idtac "@@END {t}". exact I. Qed.')
    rc_, out = core.coqc_scratch(ctx, "audit_runlift", "\n".join(lines) + "\n")
    if rc_ != 0:
        ctx.tie_broken.append("proof: Proofs/RunLift.v (lifting lemmas) no longer checks: " + out[-300:])
        return
    import re
    for t in LIFT_THEOREMS:
        m = re.search(rf"@@BEGIN {t}\n(.*?)@@END {t}", out, flags=re.S)
        if not m or "Closed under the global context" not in m.group(1):
            ctx.tie_broken.append(f"axioms: {t} (Proofs/RunLift.v) is not closed under the global context")
    ctx.notes.append("Proofs/RunLift.v: " + ", ".join(LIFT_THEOREMS) + " closed under the global context")


# ---- manifest shape families (C04: report(dry) vs report(real) must agree on every shape) ------------------------------------
# layouts per manifest kind (how the requirements are written) x shape transforms (how the file is laid out)
MANIFEST_LAYOUTS = {
    "requirements.txt": {
        "list": "requests\nclick>=8\n",
        "pinned_with_options": "--index-url https://pypi.org/simple\nrequests==2.31.0\nclick>=8 ; python_version >= '3.8'\n",
    },
    "setup.cfg": {
        "newline_last": "[metadata]\nname = demo\n\n[options]\npackages = find:\ninstall_requires =\n    requests\n    click\n",
        "newline_then_section": "[metadata]\nname = demo\n\n[options]\ninstall_requires =\n    requests\n    click\n\n[options.extras_require]\ndev =\n    pytest\n",
        "inline_last": "[metadata]\nname = demo\n\n[options]\ninstall_requires = requests, click\n",
        "inline_then_section": "[metadata]\nname = demo\n\n[options]\ninstall_requires = requests, click\npython_requires = >=3.8\n\n[flake8]\nmax-line-length = 100\n",
    },
    "pyproject.toml": {
        "array_multiline": "[project]\nname = \"demo\"\nversion = \"0.1\"\ndependencies = [\n    \"requests\",\n    \"click>=8\",\n]\n",
        "array_inline": "[project]\nname = \"demo\"\nversion = \"0.1\"\ndependencies = [\"requests\", \"click>=8\"]\n",
        "poetry": "[tool.poetry]\nname = \"demo\"\nversion = \"0.1\"\n\n[tool.poetry.dependencies]\npython = \"^3.10\"\nrequests = \"^2.31\"\n",
    },
    "setup.py": {
        "list_multiline": "from setuptools import setup\n\nsetup(\n    name=\"demo\",\n    install_requires=[\n        \"requests\",\n        \"click\",\n    ],\n)\n",
        "list_inline": "from setuptools import setup\n\nsetup(name=\"demo\", install_requires=[\"requests\", \"click\"])\n",
    },
}
# another spelling of each dependency a codemod may add (PEP 503: case, `-`/`_`/`.` runs are equivalent)
OTHER_SPELLING = {"fickling": "Fickling", "defusedxml": "DefusedXML", "flask-wtf": "Flask_WTF", "security": "Security"}
COMMENT = {"requirements.txt": "# pinned by ops\n", "setup.cfg": "# managed by hand\n", "pyproject.toml": "# managed by hand\n",
           "setup.py": "# managed by hand\n"}
MANIFEST_SHAPES = ["plain", "no_final_newline", "trailing_blank_lines", "whitespace_last_line", "crlf", "comments", "other_spelling"]


def _declare(kind, layout, text, name):
    """add `name` as an already declared requirement, in the style of the layout"""
    if kind == "requirements.txt":
        return text + name + "==1.0\n" if text.endswith("\n") else text + "\n" + name + "==1.0"
    if kind == "setup.cfg":
        if layout.startswith("newline"):
            return text.replace("    click\n", "    click\n    " + name + "\n", 1)
        return text.replace("requests, click", "requests, click, " + name, 1)
    if kind == "pyproject.toml":
        if layout == "poetry":
            return text.replace('requests = "^2.31"\n', 'requests = "^2.31"\n' + name + ' = "*"\n', 1)
        if layout == "array_inline":
            return text.replace('"click>=8"]', '"click>=8", "' + name + '"]', 1)
        return text.replace('    "click>=8",\n', '    "click>=8",\n    "' + name + '",\n', 1)
    if layout == "list_inline":
        return text.replace('"click"]', '"click", "' + name + '"]', 1)
    return text.replace('        "click",\n', '        "click",\n        "' + name + '",\n', 1)


def shape_manifest(kind, layout, shape, dep=None):
    """one member of the family: the layout's text under a shape transform"""
    text = MANIFEST_LAYOUTS[kind][layout]
    if shape == "no_final_newline":
        text = text.rstrip("\n")
    elif shape == "trailing_blank_lines":
        text = text + "\n\n"
    elif shape == "whitespace_last_line":
        text = text + "    "
    elif shape == "crlf":
        text = text.replace("\n", "\r\n")
    elif shape == "comments":
        lines = text.splitlines(True)
        text = COMMENT[kind] + "".join(lines[:-1]) + lines[-1].rstrip("\n") + "  # keep\n" if kind in ("requirements.txt",) \
            else COMMENT[kind] + text + COMMENT[kind]
    elif shape == "other_spelling":
        text = _declare(kind, layout, text, OTHER_SPELLING.get((dep or "security").lower(), (dep or "security").upper()))
    return text


def manifest_family():
    """every (kind, layout, shape)"""
    return [(k, l, sh) for k, layouts in MANIFEST_LAYOUTS.items() for l in layouts for sh in MANIFEST_SHAPES]


# ---- encoding variants of a manifest (bytes) ---------------------------------------------------------------------------------
MANIFEST_ENCODINGS = ["utf-16-le-bom", "utf-16-be-bom", "utf-8-bom", "latin-1-comment"]


def encode_manifest(kind, text, enc):
    import codecs
    if enc == "utf-16-le-bom":
        return codecs.BOM_UTF16_LE + text.encode("utf-16-le")
    if enc == "utf-16-be-bom":
        return codecs.BOM_UTF16_BE + text.encode("utf-16-be")
    if enc == "utf-8-bom":
        return codecs.BOM_UTF8 + text.encode("utf-8")
    if enc == "latin-1-comment":
        data = ("# d\u00e9pendances g\u00e9r\u00e9es \u00e0 la main\n" + text).encode("latin-1")
        try:
            data.decode("utf-8")
        except UnicodeDecodeError:
            return data
        raise AssertionError("latin-1 variant decodes as UTF-8")
    raise ValueError(enc)


def probe_hcase(pipe, before, after_real, failed_real, observed, dry):
    """A plugin-pipeline probe (regex / XML pipeline driven in-process through BaseCodemod.apply) as a case of the model:
    oracle values (what the transformer does to each content; which contents cannot be read/parsed) come from the REAL run,
    `observed` = {"changed": [...], "failed": [...], "raised": name|None, "tree": {path: text}} is the run to predict."""
    A = Abstr()
    files = sorted(before)
    T = [(A.content(before[p]), A.content(after_real[p]), []) for p in files if after_real.get(p) is not None and after_real[p] != before[p]]
    bad = [A.content(before[p]) for p in failed_real]
    cm = c_hcodemod(A, "probe", "DNone", T, [], [], pipe=pipe)
    hx_fs = [(A.path(p), A.content(before[p])) for p in files]
    ob_fs = [(A.path(p), A.content(c)) for p, c in observed["tree"].items() if p in before]
    if observed["raised"]:
        status, rows = 1, []
    else:
        status, rows = 0, [(A.codemod("probe"), [A.path(p) for p in observed["changed"]], [A.path(p) for p in observed["failed"]], [])]
    return c_hcase(dry, [A.path(p) for p in files], hx_fs, bad, [cm], [], [], status, ob_fs, rows)
