(** Composition of reported diffs (the self-contained half of C03_diffs_compose; the orchestration model
    that supplies the per-step facts is Run.v's business).

    Situation: a file has contents c_1; codemod i rewrites c_i into c_{i+1} and reports the diff d_i.
    If every d_i has the round-trip property w.r.t. ITS OWN step
        apply_udiff d_i c_i = Some (norm_nl c_{i+1})
    then applying d_1, ..., d_n in execution order to c_1 gives norm_nl c_{n+1}.

    The final-newline caveat, precisely.  The round trip only determines the new content up to the
    termination of its last line (the diff text has no "\ No newline at end of file" marker), so the
    applier is run at step i+1 on norm_nl c_{i+1}, not on c_{i+1}.  This composes UNCONDITIONALLY, because
    the reference applier (i) does not see whether the last line of its input is terminated
    ([apply_udiff_norm_nl]) and (ii) always returns a text in normal form ([apply_udiff_normal]).
    [eq_nl] is the kernel of [norm_nl] (terminate an unterminated last line): it identifies "a" and "a\n"
    but NOT "a\n" and "a\n\n", and NOT "" and "\n" - with the coarser relation "equal after removing one
    final newline" composition would fail (a diff that appends after an empty last line).
    For n = 0 the result is c_1 itself (not normalised). *)
From CM Require Import Spec.DiffSpec Proofs.DiffFacts.

Fixpoint fold_apply (ds : list str) (c : str) : option str :=
  match ds with
  | [] => Some c
  | d :: r => match apply_udiff d c with Some c' => fold_apply r c' | None => None end
  end.

(** [steps] = [(d_1, c_2); ...; (d_n, c_{n+1})] *)
Fixpoint steps_ok (c : str) (steps : list (str * str)) : Prop :=
  match steps with
  | [] => True
  | (d, c') :: r => apply_udiff d c = Some (norm_nl c') /\ steps_ok c' r
  end.
Fixpoint final (c : str) (steps : list (str * str)) : str :=
  match steps with [] => c | (_, c') :: r => final c' r end.

Lemma fold_apply_steps steps : forall c x,
  steps_ok c steps -> norm_nl x = norm_nl c ->
  fold_apply (map fst steps) x = Some (match steps with [] => x | _ => norm_nl (final c steps) end).
Proof.
  induction steps as [|[d c'] r IH]; intros c x Hok Hx; [reflexivity|].
  cbn [map fst fold_apply steps_ok final] in *. destruct Hok as [Hd Hr].
  rewrite <- apply_udiff_norm_nl, Hx, apply_udiff_norm_nl, Hd.
  rewrite (IH c' (norm_nl c') Hr (norm_nl_idem c')). destruct r; reflexivity.
Qed.

Theorem diffs_compose c steps :
  steps_ok c steps ->
  fold_apply (map fst steps) c = Some (match steps with [] => c | _ => norm_nl (final c steps) end).
Proof. intros H. apply (fold_apply_steps steps c c H eq_refl). Qed.

Corollary diffs_compose_eq_nl c steps :
  steps_ok c steps -> fold_apply (map fst steps) c ≈nl Some (final c steps).
Proof.
  intros H. rewrite (diffs_compose _ _ H). destruct steps as [|s r]; cbn; [reflexivity|].
  unfold eq_nl. apply norm_nl_idem.
Qed.

(** The per-step hypothesis is what [patch_roundtrip] gives for a step whose diff is [create_diff] of a
    script between (texts ≈nl to) the old and the new content. *)
Fixpoint scripts_ok (c : str) (ss : list script) : Prop :=
  match ss with
  | [] => True
  | s :: r => lf_clean (a_of s) = true /\ lf_clean (b_of s) = true /\
              eq_nl (concat (a_of s)) c /\ scripts_ok (concat (b_of s)) r
  end.
Fixpoint final_of (c : str) (ss : list script) : str :=
  match ss with [] => c | s :: r => final_of (concat (b_of s)) r end.

Lemma scripts_steps ss : forall c,
  scripts_ok c ss ->
  steps_ok c (map (fun s => (create_diff s, concat (b_of s))) ss) /\
  final c (map (fun s => (create_diff s, concat (b_of s))) ss) = final_of c ss.
Proof.
  induction ss as [|s r IH]; intros c H; [split; [exact I|reflexivity]|].
  cbn [scripts_ok map steps_ok final final_of] in *. destruct H as [Ha [Hb [Hc Hr]]].
  destruct (IH _ Hr) as [H1 H2]. repeat split; try assumption.
  rewrite <- apply_udiff_norm_nl, <- Hc, apply_udiff_norm_nl. apply patch_roundtrip; assumption.
Qed.

Theorem script_diffs_compose c ss :
  scripts_ok c ss ->
  fold_apply (map create_diff ss) c = Some (match ss with [] => c | _ => norm_nl (final_of c ss) end).
Proof.
  intros H. destruct (scripts_steps ss c H) as [H1 H2].
  pose proof (diffs_compose _ _ H1) as D. rewrite map_map in D. cbn [fst] in D.
  change (map (fun x : script => create_diff x) ss) with (map create_diff ss) in D.
  rewrite D, H2. destruct ss; reflexivity.
Qed.
