from functools import partial
from typing import Optional, Sequence

import libcst as cst
from libcst import SimpleStatementLine, ensure_type, matchers
from libcst.codemod import CodemodContext, ContextAwareVisitor
from libcst.metadata import (
    BuiltinAssignment,
    ParentNodeProvider,
    PositionProvider,
    ScopeProvider,
)

from codemodder.codemods.libcst_transformer import (
    LibcstResultTransformer,
    LibcstTransformerPipeline,
)
from codemodder.codemods.utils import MetadataPreservingTransformer
from codemodder.codemods.utils_mixin import (
    AncestorPatternsMixin,
    NameAndAncestorResolutionMixin,
    NameResolutionMixin,
)
from codemodder.codetf import Change
from codemodder.file_context import FileContext
from codemodder.result import Result
from core_codemods.api import Metadata, Reference, ReviewGuidance
from core_codemods.api.core_codemod import CoreCodemod


class FileResourceLeakTransformer(LibcstResultTransformer):
    change_description = "Wrapped opened resource in a with statement."

    METADATA_DEPENDENCIES = (
        ScopeProvider,
        ParentNodeProvider,
    )

    def __init__(
        self,
        context: CodemodContext,
        results: list[Result],
        file_context: FileContext,
        *codemod_args,
        **codemod_kwargs,
    ) -> None:
        del codemod_args
        self.changed_nodes: dict[
            cst.CSTNode, cst.CSTNode | cst.RemovalSentinel | cst.FlattenSentinel
        ] = {}
        super().__init__(context, results, file_context, **codemod_kwargs)

    def transform_module_impl(self, tree: cst.Module) -> cst.Module:
        fr = FindResources(self.context)
        tree.visit(fr)

        def line_filter(x):
            return self.filter_by_path_includes_or_excludes(x[2])

        for k, v in fr.assigned_resources.items():
            fr.assigned_resources[k] = [t for t in v if line_filter(t)]
        fixer = ResourceLeakFixer(
            self.context, self.file_context, fr.assigned_resources
        )
        result = tree.visit(fixer)
        self.file_context.codemod_changes.extend(fixer.changes)
        return result


FileResourceLeak = CoreCodemod(
    metadata=Metadata(
        name="fix-file-resource-leak",
        summary="Automatically Close Resources",
        review_guidance=ReviewGuidance.MERGE_WITHOUT_REVIEW,
        references=[
            Reference(url="https://cwe.mitre.org/data/definitions/772.html"),
            Reference(url="https://cwe.mitre.org/data/definitions/404.html"),
        ],
    ),
    transformer=LibcstTransformerPipeline(FileResourceLeakTransformer),
    detector=None,
)


class FindResources(ContextAwareVisitor, NameResolutionMixin, AncestorPatternsMixin):
    """
    Finds and all the patterns of the form x = resource(...), where resource is an call that results in an open resource. It gathers the path in the tree corresponding to the mentioned pattern.
    """

    def __init__(self, context: CodemodContext) -> None:
        super().__init__(context)
        self.assigned_resources: dict[
            cst.IndentedBlock | cst.Module,
            list[
                tuple[
                    cst.SimpleStatementLine,
                    cst.Assign | cst.AnnAssign,
                    cst.Call,
                ]
            ],
        ] = {}

    def leave_SimpleStatementLine(self, original_node: cst.SimpleStatementLine) -> None:
        # Should be of the form x = resource(...)
        # i.e. IndentedBlock -> SimpleStatementLine -> Assign | AnnAssign -> Call
        match original_node:
            case cst.SimpleStatementLine(body=[bsstmt]):
                block = self.get_parent(original_node)
                # SimpleStatementLine is always part of a IndentedBlock or Module body
                block = ensure_type(block, cst.IndentedBlock | cst.Module)
                if isinstance(block, cst.Module) or self._has_no_classdef_parent(block):
                    maybe_tuple = self._is_named_assign_of_resource(bsstmt)  # type: ignore
                    if maybe_tuple:
                        assign, call = maybe_tuple
                        if block in self.assigned_resources:
                            self.assigned_resources[block].append(
                                (original_node, assign, call)
                            )
                        else:
                            self.assigned_resources[block] = [
                                (original_node, assign, call)
                            ]

    def _has_no_classdef_parent(self, block: cst.CSTNode) -> bool:
        block_parent = self.get_parent(block)
        if block_parent and not isinstance(block_parent, cst.ClassDef):
            return True
        return False

    def _is_named_assign_of_resource(
        self, bsstmt: cst.BaseSmallStatement
    ) -> Optional[tuple[cst.AnnAssign | cst.Assign, cst.Call]]:
        match bsstmt:
            case cst.Assign(value=value, targets=targets):
                maybe_value = self._is_resource_call(value)  # type: ignore
                if maybe_value and all(
                    map(
                        lambda t: matchers.matches(
                            t, matchers.AssignTarget(target=matchers.Name())
                        ),
                        targets,  # type: ignore
                    )
                ):
                    return (bsstmt, maybe_value)
            case cst.AnnAssign(target=target, value=value):
                maybe_value = self._is_resource_call(value)  # type: ignore
                if maybe_value and isinstance(target, cst.Name):  # type: ignore
                    return (bsstmt, maybe_value)
        return None

    def _is_resource_call(self, value) -> Optional[cst.Call]:
        match value:
            case cst.Call() if self._is_resource(value):
                return value
        return None

    def _is_resource(self, call: cst.Call) -> bool:
        if maybe_assignment := self.find_single_assignment(call):
            # is open call
            if isinstance(maybe_assignment, BuiltinAssignment) and matchers.matches(
                call.func, matchers.Name(value="open")
            ):
                return True
        return False


class ResourceLeakFixer(MetadataPreservingTransformer, NameAndAncestorResolutionMixin):
    METADATA_DEPENDENCIES = (PositionProvider,)

    def __init__(
        self,
        context: CodemodContext,
        file_context: FileContext,
        leaked_assigned_resources: dict[
            cst.IndentedBlock | cst.Module,
            list[
                tuple[
                    cst.SimpleStatementLine,
                    cst.Assign | cst.AnnAssign,
                    cst.Call,
                ]
            ],
        ],
    ):
        super().__init__(context)
        self.leaked_assigned_resources = leaked_assigned_resources
        self.changes: list[Change] = []
        self.file_context = file_context

    def _is_fixable(self, block, index, named_targets, other_targets) -> bool:
        # assigned to something that is not a Name?
        if other_targets:
            return False
        # yield, returned, argument of a call, referenced outside of block
        name_escapes_partial = partial(
            self._name_escapes_scope, block=block, index=index
        )
        # is closed?
        name_condition = map(
            lambda n: not self._is_closed(n) and not name_escapes_partial(n),
            named_targets,
        )
        return all(name_condition)

    def _handle_block(
        self,
        original_block: cst.Module | cst.IndentedBlock,
        updated_block,
        leak: list[
            tuple[cst.SimpleStatementLine, cst.Assign | cst.AnnAssign, cst.Call]
        ],
    ) -> cst.Module | cst.IndentedBlock:
        new_stmts = list(updated_block.body)
        # points to the index of the statement the original statement is now included in
        # for example, in:
        # f = open('test')
        # f.read()
        # print('stop')
        # 1 would point to 0 since f.read() would be included in the with statement of 0
        new_index_of_original_stmt = list(range(len(new_stmts)))
        for stmt, assignment, resource in reversed(leak):
            named_targets, other_targets = self.find_transitive_assignment_targets(
                resource
            )
            index = original_block.body.index(stmt)
            if self._is_fixable(original_block, index, named_targets, other_targets):
                line_number = self.get_metadata(PositionProvider, resource).start.line
                self.changes.append(
                    Change(
                        lineNumber=line_number,
                        description=FileResourceLeakTransformer.change_description,
                        findings=self.file_context.get_findings_for_location(
                            line_number
                        ),
                    )
                )

                # grab the index of the last statement with reference to the resource
                last_index = self._find_last_index_with_access(
                    named_targets, original_block, index
                )

                # No accesses, remove the statement
                if last_index is None:
                    new_stmts[index] = cst.Pass()
                    new_index_of_original_stmt[index] = -1
                    continue

                # check if the statement in the last_index is now included in some earlier with statement
                new_last_index = new_index_of_original_stmt[last_index]

                # build the with statement
                new_with = self._wrap_in_with_statement(
                    new_stmts,
                    new_index_of_original_stmt,
                    assignment,
                    resource,
                    index,
                    new_last_index,
                )
                new_stmts[index] = new_with

                # if the statement at i was included in the with statement (at index) then point it
                for i in range(index, last_index + 1):
                    new_index_of_original_stmt[i] = index

        new_block_stmts = []
        # if point != i do not include it since the statement at i is now included in the statement at point
        for i, point in enumerate(new_index_of_original_stmt):
            if point == i:
                new_block_stmts.append(new_stmts[i])
        new_block = updated_block.with_changes(body=new_block_stmts)
        return new_block

    def leave_IndentedBlock(
        self, original_node: cst.IndentedBlock, updated_node: cst.IndentedBlock
    ) -> cst.BaseSuite:
        if original_node in self.leaked_assigned_resources:
            return self._handle_block(
                original_node,
                updated_node,
                self.leaked_assigned_resources[original_node],
            )
        return updated_node

    def leave_Module(self, original_node: cst.Module, updated_node) -> cst.Module:
        if original_node in self.leaked_assigned_resources:
            return self._handle_block(
                original_node,
                updated_node,
                self.leaked_assigned_resources[original_node],
            )
        return updated_node

    def _find_last_index_with_access(
        self, named_targets, block, index
    ) -> Optional[int]:
        last_index = None
        for name in named_targets:
            accesses = self.find_accesses(name)
            for node in (access.node for access in accesses):
                last_index_for_node = (index + 1) + self._last_ancestor_index(
                    node, block.body[index + 1 :]
                )
                if not last_index or (
                    last_index_for_node and last_index_for_node > last_index
                ):
                    last_index = last_index_for_node
        return last_index

    def _last_ancestor_index(self, node, node_sequence) -> Optional[int]:
        last = None
        path = self.path_to_root_as_set(node)
        for i, n in enumerate(node_sequence):
            if n in path:
                last = i
        return last

    def _wrap_in_with_statement(
        self,
        stmts: list[SimpleStatementLine],
        stmts_index,
        assign: cst.Assign | cst.AnnAssign,
        resource: cst.Call,
        index: int,
        last_index: int,
    ) -> cst.With:
        # only include statements that were not moved into another with statement
        body_stmts = []
        for i in range(index + 1, last_index + 1):
            point = stmts_index[i]
            if i == point:
                body_stmts.append(stmts[i])
        with_statement = self._build_with_statement(assign, resource, body_stmts)
        return with_statement

    def _build_with_statement(
        self, assign: cst.Assign | cst.AnnAssign, resource: cst.Call, body
    ):
        match assign:
            case cst.Assign():
                head, *tail = assign.targets
                items = [
                    cst.WithItem(item=resource, asname=cst.AsName(name=head.target))
                ]
                for t in tail:
                    items.append(
                        cst.WithItem(item=head.target, asname=cst.AsName(name=t.target))
                    )
                return cst.With(items=items, body=cst.IndentedBlock(body=body))
            case cst.AnnAssign():
                items = [
                    cst.WithItem(item=resource, asname=cst.AsName(name=assign.target))
                ]
                return cst.With(items=items, body=cst.IndentedBlock(body=body))
        # should not get here
        return None

    def _is_closed(self, name: cst.Name) -> bool:
        """
        Checks if close is called for a given name.
        """
        accesses = self.find_accesses(name)
        for node in (a.node for a in accesses):
            # is node.close() or node.__exit__
            maybe_name = self.has_attr_called(node)
            match maybe_name:
                case cst.Name(value=value):  # type: ignore
                    if value in ("close", "__exit__"):  # type: ignore
                        return True
            if self.is_with_item(
                node
            ) or self._is_arg_of_contextlib_function_in_with_item(node):
                return True
        return False

    def _name_escapes_scope(
        self, name: cst.Name, block: cst.Module | cst.IndentedBlock, index: int
    ) -> bool:
        accesses = self.find_accesses(name)
        for node in (a.node for a in accesses):
            # returned or yielded
            if self.is_return_value(node) or self.is_yield_value(node):
                return True
            # argument of a call
            # TODO exclude calls that spawn dependent resources here...
            if self.is_argument_of_call(node):
                return True
            # out of block?
            # TODO this only looks for accesses and not assignments
            # e.g.
            # out = None
            # if True:
            #    out = x
            # will pass
            if not self._filter_ancestors(node, block.body[index:]):
                return True

        return False

    def _filter_ancestors(
        self, node: cst.CSTNode, node_sequence: Sequence[cst.CSTNode]
    ) -> list[cst.CSTNode]:
        path = self.path_to_root_as_set(node)
        return list(filter(lambda n: n in path, node_sequence))

    def _find_dependent_resources(self, resource) -> list[cst.CSTNode]:
        """
        Find all the dependent resources of a given resource. A resource S is dependent to another resource R, if closing R also closes S.
        """
        return [resource]

    def _is_arg_of_contextlib_function_in_with_item(
        self, node: cst.CSTNode
    ) -> Optional[cst.WithItem]:
        """
        Checks if the node is the argument of a contextlib function that is an item in a with statement.
        """
        maybe_parent = self.get_parent(node)
        maybe_gparent = self.get_parent(maybe_parent) if maybe_parent else None
        match maybe_gparent:
            case cst.Call(item=node):
                true_name = self.find_base_name(maybe_gparent)
                if true_name and true_name.startswith("contextlib."):
                    return self.is_with_item(maybe_gparent)
        return None
