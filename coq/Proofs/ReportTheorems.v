(** The C15 laws for every run of the model, and the witnesses of the deviations. *)
From CM Require Import Model.Report Spec.ReportSpec Proofs.DictFacts Proofs.ReportSchemaFacts Proofs.ReportFacts.
From Coq Require Import Lia ZifyBool.

(* ---------------- premises on the oracles ---------------- *)
(** One codemod run: its pipeline has its guards ([good_pipe]); the files it was given have project-relative paths and the
    line numbers passed to [report_unfixed] are node positions (>= 0); the changesets returned by the dependency writers
    are well formed (oracle contract, tested by the harness; the writers belong to C14). *)
Definition run_ok (T : tables) (r : cm_run) : Prop :=
  good_pipe T (cr_pipe r) /\ Forall (fun f => file_ok f /\ file_pre T (cr_pipe r) f) (files_of r) /\
  (forall ty cs, In (ty, Some cs) (cr_stores r) -> changeset_ok cs = true).

(* ---------------- one result per codemod, in order ---------------- *)
Lemma results_of_report R iv nf runs :
  ct_results (report R iv nf runs) =
  map (compile_result (t_update R) (iv_dir iv) (apply_codemods (t_apply R) (t_pipe R) nf runs)) runs.
Proof. unfold report, build, compile_results. destruct (t_build R), (t_compile R). reflexivity. Qed.

Lemma one_result_all R iv nf runs : one_result_per_codemod (map cr_cm runs) (report R iv nf runs).
Proof.
  unfold one_result_per_codemod. rewrite results_of_report.
  generalize (apply_codemods (t_apply R) (t_pipe R) nf runs) as c. intros c.
  induction runs as [|r rs IH]; cbn; constructor; [|exact IH].
  unfold result_of_codemod, compile_result; cbn. repeat split. eexists; reflexivity.
Qed.

Lemma result_ids_all R iv nf runs : map rs_codemod (ct_results (report R iv nf runs)) = map rid runs.
Proof. rewrite results_of_report, map_map. reflexivity. Qed.

(* ---------------- every changeset is well formed (no hypothesis on the ids) ---------------- *)
Definition view_wf (v : view) : Prop :=
  forallb changeset_ok (vw_cs v) = true /\ forallb unfixed_line_ok (vw_unf v) = true.

Lemma first_store_in stores ty cs : first_store stores = Some (ty, cs) -> In (ty, Some cs) stores.
Proof.
  induction stores as [|[t [c|]] r IH]; cbn; [discriminate| |].
  - intros H; inversion H; subst. now left.
  - intros H. right. auto.
Qed.

Lemma run_view_wf T r v : strict (t_val T) -> run_ok T r -> view_wf v -> view_wf (run_view T r v).
Proof.
  intros HV [HP [HF HS]] Hv. unfold run_view.
  assert (Hw : view_wf (match cr_files r with Some fs => fold_left add_file_view (map (pipe_file T (cr_pipe r)) fs) v | None => v end)).
  { unfold files_of in HF. destruct (cr_files r) as [fs|]; [|exact Hv].
    revert v Hv. induction fs as [|f fs IH]; intros v Hv; cbn; [exact Hv|].
    inversion HF as [|? ? [Hf1 Hf2] HF']; subst. apply IH; [assumption|].
    destruct (pipe_file_ok T (cr_pipe r) f HV HP Hf1 Hf2) as [Hc Hu]. destruct Hv as [Hv1 Hv2].
    split; cbn; rewrite forallb_app; [rewrite Hv1, Hc|rewrite Hv2, Hu]; reflexivity. }
  revert Hw. generalize (match cr_files r with Some fs => fold_left add_file_view (map (pipe_file T (cr_pipe r)) fs) v | None => v end).
  intros w [Hw1 Hw2]. unfold deps_view.
  destruct (is_nil (vw_deps w)); [split; assumption|].
  destruct (is_nil (cr_stores r)); [split; assumption|].
  destruct (first_store (cr_stores r)) as [[ty cs]|] eqn:E; [|split; assumption].
  split; cbn; [|assumption]. rewrite forallb_app, Hw1. cbn. rewrite (HS ty cs (first_store_in _ _ _ E)). reflexivity.
Qed.

Lemma fold_wf T runs c :
  strict (t_val T) -> (forall r, In r runs -> run_ok T r) -> (forall k, view_wf (proj k c)) ->
  forall k, view_wf (proj k (fold_left (apply_codemod T) runs c)).
Proof.
  intros HV. revert c. induction runs as [|r rs IH]; intros c Hr Hc k; cbn; [apply Hc|].
  apply IH; [intros; apply Hr; now right|]. intros k'.
  destruct (str_eqb_spec k' (rid r)) as [->|Hne].
  - rewrite proj_apply_same. apply run_view_wf; auto. apply Hr. now left.
  - rewrite proj_apply_other by assumption. apply Hc.
Qed.

Lemma final_wf av T nf runs :
  strict (t_val T) -> (forall r, In r runs -> run_ok T r) -> forall k, view_wf (proj k (apply_codemods av T nf runs)).
Proof.
  intros HV Hr k. destruct av; cbn. destruct nf; [split; reflexivity|].
  apply fold_wf; auto. intros k'. split; reflexivity.
Qed.

Lemma changesets_wellformed_all R iv nf runs res :
  strict (t_val (t_pipe R)) -> (forall r, In r runs -> run_ok (t_pipe R) r) ->
  In res (ct_results (report R iv nf runs)) ->
  forallb changeset_ok (rs_changeset res) = true /\ result_valid res = true.
Proof.
  intros HV Hr Hin. rewrite results_of_report in Hin. apply in_map_iff in Hin as [r [<- Hin]].
  destruct (final_wf (t_apply R) (t_pipe R) nf runs HV Hr (rid r)) as [H1 H2]. cbn in H1, H2.
  assert (Hcs : forallb changeset_ok (rs_changeset (compile_result (t_update R) (iv_dir iv) (apply_codemods (t_apply R) (t_pipe R) nf runs) r)) = true).
  { apply forallb_forall. intros cs Hcs. cbn in Hcs. apply update_meta_path in Hcs as [cs0 [Hin0 [_ ->]]].
    eapply forallb_forall in H1; eauto. }
  split; [exact Hcs|]. unfold result_valid. apply andb_true_iff. split.
  - apply forallb_forall. intros cs Hin'. eapply forallb_forall in Hcs; eauto.
    unfold changeset_ok in Hcs. unfold changeset_valid. repeat (apply andb_true_iff in Hcs as [Hcs ?]).
    repeat (apply andb_true_iff; split); auto.
    + unfold relative_path in Hcs. destruct (cs_path cs); [discriminate|reflexivity].
    + apply forallb_forall. intros ch Hch. apply change_ok_valid. eapply forallb_forall; eauto.
  - cbn. exact H2.
Qed.

Lemma schema_ok_all R iv nf runs :
  strict (t_val (t_pipe R)) -> (forall r, In r runs -> run_ok (t_pipe R) r) ->
  schema_ok (to_json (report R iv nf runs)) = true.
Proof.
  intros HV Hr. apply schema_ok_to_json. split.
  - unfold report, build. destruct (t_build R). cbn. discriminate.
  - apply forallb_forall. intros res Hin. eapply changesets_wellformed_all; eauto.
Qed.

(* ---------------- failed and changed files of one codemod ---------------- *)
Lemma shape_disjoint T p (fs : list file_run) cs :
  NoDup (map fr_path fs) ->
  In cs (flat_map fc_changesets (map (pipe_file T p) fs)) ->
  ~ In (cs_path cs) (flat_map fc_failures (map (pipe_file T p) fs)).
Proof.
  intros Hnd Hcs Hf.
  apply in_flat_map in Hcs as [fc [Hfc Hcs]]. apply in_map_iff in Hfc as [f [<- Hf1]].
  apply in_flat_map in Hf as [fc' [Hfc' Hfl]]. apply in_map_iff in Hfc' as [f' [<- Hf2]].
  destruct (pipe_file_shape T p f) as [[E _]|[cs1 [E1 [Ep Efl]]]]; [rewrite E in Hcs; destruct Hcs|].
  rewrite E1 in Hcs. destruct Hcs as [<-|[]].
  destruct (pipe_file_shape T p f') as [[E' [E2|E2]]|[cs2 [_ [_ E2]]]]; rewrite E2 in Hfl; cbn in Hfl; try contradiction.
  destruct Hfl as [Hfl|[]].
  (* f' failed with fr_path f' = fr_path f : by NoDup f = f', but f has a changeset and no failure *)
  assert (f = f').
  { rewrite Ep in Hfl. clear - Hnd Hf1 Hf2 Hfl. induction fs as [|x fs IH]; [destruct Hf1|].
    cbn in Hnd. inversion Hnd; subst. destruct Hf1 as [->|Hf1], Hf2 as [->|Hf2]; auto.
    - exfalso. apply H1. rewrite <- Hfl. now apply in_map.
    - exfalso. apply H1. rewrite Hfl. now apply in_map. }
  subst f'. rewrite E1 in E'. discriminate.
Qed.

(** With distinct codemod ids and distinct files per codemod, a changeset whose file is also among the codemod's failed
    files can only be the one written by the dependency manager (the manifest). *)
Lemma failed_changed_all R iv runs r cs nf :
  NoDup (map rid runs) -> In r runs -> NoDup (map fr_path (files_of r)) ->
  let res := compile_result (t_update R) (iv_dir iv) (apply_codemods (t_apply R) (t_pipe R) nf runs) r in
  In cs (rs_changeset res) -> In (abs_of (iv_dir iv) (cs_path cs)) (failed_of res) ->
  exists ty cs0, first_store (cr_stores r) = Some (ty, cs0) /\ cs_path cs = cs_path cs0 /\
                 In (cs_path cs0) (map fr_path (files_of r)).
Proof.
  intros Hnd Hin Hfiles res Hcs Hfl. subst res. cbn in Hcs, Hfl.
  pose proof (proj_final (t_pipe R) (t_apply R) nf runs r Hnd Hin) as HP.
  assert (E1 : getl (cm_id (cr_cm r)) (cx_changesets (apply_codemods (t_apply R) (t_pipe R) nf runs)) =
               vw_cs (proj (rid r) (apply_codemods (t_apply R) (t_pipe R) nf runs))) by reflexivity.
  assert (E2 : getl (cm_id (cr_cm r)) (cx_failures (apply_codemods (t_apply R) (t_pipe R) nf runs)) =
               vw_fail (proj (rid r) (apply_codemods (t_apply R) (t_pipe R) nf runs))) by reflexivity.
  rewrite E1 in Hcs. rewrite E2 in Hfl. rewrite HP in Hcs, Hfl. clear E1 E2 HP.
  apply update_meta_path in Hcs as [cs0 [Hcs0 [Hp _]]].
  apply in_map_iff in Hfl as [fl [Hfl1 Hfl2]]. apply abs_of_inj in Hfl1. subst fl.
  destruct nf; [destruct Hcs0|].
  destruct (run_view_empty (t_pipe R) r) as [m [Hm [Hv1 [Hv2 _]]]]. rewrite Hv1 in Hcs0. rewrite Hv2 in Hfl2.
  assert (Hfailpath : In (cs_path cs) (map fr_path (files_of r))).
  { clear - Hfl2. unfold file_ctxs in Hfl2. apply in_flat_map in Hfl2 as [fc [Hfc Hfl]].
    apply in_map_iff in Hfc as [f [<- Hf]].
    destruct (pipe_file_shape (t_pipe R) (cr_pipe r) f) as [[_ [E|E]]|[? [_ [_ E]]]]; rewrite E in Hfl; cbn in Hfl; try contradiction.
    destruct Hfl as [Hfl|[]]. rewrite <- Hfl. now apply in_map. }
  apply in_app_iff in Hcs0 as [Hcs0|Hcs0].
  - exfalso. unfold file_ctxs in *. rewrite Hp in Hfl2. eapply shape_disjoint; eauto.
  - destruct Hm as [->|[ty [cs1 [Hfs ->]]]]; [destruct Hcs0|]. destruct Hcs0 as [<-|[]].
    exists ty, cs1. rewrite <- Hp. auto.
Qed.

(* ---------------- SAST metadata ---------------- *)
Lemma sast_all R iv nf runs r :
  let res := compile_result (t_update R) (iv_dir iv) (apply_codemods (t_apply R) (t_pipe R) nf runs) r in
  rs_tool res = option_map (fun t => {| dt_name := tm_name t |}) (cm_tool (cr_cm r)) /\
  result_findings_ok (tool_rules (cr_cm r)) res.
Proof.
  cbn. split; [reflexivity|]. unfold result_findings_ok. cbn.
  destruct (tool_rules (cr_cm r)) as [|r0 rl] eqn:E.
  - apply Forall_forall. intros cs _. apply Forall_forall. intros ch _. apply Forall_forall. intros f _.
    unfold finding_meta_ok, rule_lookup. reflexivity.
  - apply update_meta_findings_ok. discriminate.
Qed.

(* ---------------- witnesses ---------------- *)
Definition V1 : validators := {| v_line := LineLt 1; v_desc := DescNonEmptyWhenGiven |}.
Definition w_rule : rule := {| ru_id := [114; 49]%N; ru_name := [114; 49]%N; ru_url := None |}.
Definition w_finding : finding := {| fi_id := [114; 49]%N; fi_rule := w_rule |}.
Definition w_cm : codemod := {| cm_id := [119]%N; cm_summary := [115]%N; cm_description := [100]%N; cm_tool := None; cm_refs := [] |}.
Definition w_req (line : Z) (desc : str) : change_req := {| rq_line := line; rq_desc := desc; rq_findings := [] |}.
Definition w_file (path : str) (parse_ok : bool) (raw : traw) : file_run :=
  {| fr_path := path; fr_has_results := false; fr_findings := [w_finding]; fr_parse_ok := parse_ok; fr_reported := [];
     fr_deps := []; fr_raw := raw |}.
Definition w_run (p : pipe_kind) (fs : list file_run) : cm_run :=
  {| cr_cm := w_cm; cr_pipe := p; cr_files := Some fs; cr_stores := []; cr_note_ok := []; cr_note_fail := [] |}.
Definition w_T (lv : libcst_apply_variant) (xv : xml_apply_variant) (V : validators) : tables :=
  {| t_libcst := lv; t_xml := xv; t_regex := RegexFailureHandled; t_fail := FailureLineZero; t_val := V |}.
Definition w_R (T : tables) : rtables :=
  {| t_pipe := T; t_apply := ApplyEarlyReturnThenLoop; t_compile := CompileOnePerCodemodInOrder; t_update := UpdateByFindingId;
     t_build := BuildRunExcludeNone |}.
Definition w_iv : invocation :=
  {| iv_version := [49]%N; iv_command := [99]%N; iv_args := []; iv_elapsed := 5; iv_dir := [100]%N; iv_absdir := [47; 100]%N |}.
Definition a_py : str := [97; 46; 112; 121]%N.
Definition w_xml : str := [119; 46; 120; 109; 108]%N.

(** libcst pipeline without the `if not diff` guard: a reported change with an unchanged tree gives a changeset with an empty diff *)
Definition w_nodiff_runs : list cm_run := [w_run PLibcst [w_file a_py true (TDone [w_req 3 [100]%N] [])]].
Lemma nodiff_witness xv :
  let R := w_R (w_T LibcstNoDiffGuard xv V1) in
  schema_ok (to_json (report R w_iv false w_nodiff_runs)) = false /\
  exists res, In res (ct_results (report R w_iv false w_nodiff_runs)) /\ forallb changeset_ok (rs_changeset res) = false.
Proof. destruct xv; (split; [vm_compute; reflexivity|]); eexists; (split; [left; reflexivity|vm_compute; reflexivity]). Qed.

(** XML pipeline: base-class [change_description = ""] gives changes without description *)
Definition w_xml_runs (diff : str) : list cm_run := [w_run (PXml []) [w_file w_xml true (TDone [w_req 2 []] diff)]].
Lemma xml_desc_none_witness lv xv :
  let R := w_R (w_T lv xv V1) in
  exists res cs ch, In res (ct_results (report R w_iv false (w_xml_runs [43]%N))) /\ In cs (rs_changeset res) /\
                    In ch (cs_changes cs) /\ ch_desc ch = None /\ change_ok ch = false /\
                    schema_ok (to_json (report R w_iv false (w_xml_runs [43]%N))) = true.
Proof.
  destruct lv, xv; cbn; do 3 eexists; (split; [left; reflexivity|]); (split; [left; reflexivity|]);
    (split; [left; reflexivity|]); repeat split; vm_compute; reflexivity.
Qed.
(** XML pipeline without a diff guard: a matched element whose attributes already have the wanted value *)
Lemma xml_empty_diff_witness lv :
  let R := w_R (w_T lv XmlDescOrNoneNoDiffGuard V1) in
  let runs := [w_run (PXml [120]%N) [w_file w_xml true (TDone [w_req 2 []] [])]] in
  schema_ok (to_json (report R w_iv false runs)) = false /\
  exists res cs, In res (ct_results (report R w_iv false runs)) /\ In cs (rs_changeset res) /\ cs_diff cs = [].
Proof.
  destruct lv; (split; [vm_compute; reflexivity|]); do 2 eexists; (split; [left; reflexivity|]);
    (split; [left; reflexivity|reflexivity]).
Qed.

(** the manifest both failed (as a file the codemod was given) and changed (by the dependency manager) *)
Definition setup_py : str := [115; 101; 116; 117; 112; 46; 112; 121]%N.
Definition w_dep : dep := {| dp_name := [115]%N; dp_desc := [115]%N |}.
Definition w_change : change :=
  {| ch_line := 1; ch_desc := Some [100]%N; ch_side := SideRight; ch_props := None; ch_pkgs := None; ch_findings := None |}.
Definition w_manifest_cs : changeset := {| cs_path := setup_py; cs_diff := [43]%N; cs_changes := [w_change]; cs_ai := None |}.
Definition w_overlap_runs : list cm_run :=
  [{| cr_cm := w_cm; cr_pipe := PLibcst;
      cr_files := Some [w_file setup_py true TRaise;
                        {| fr_path := a_py; fr_has_results := false; fr_findings := []; fr_parse_ok := true; fr_reported := [];
                           fr_deps := [w_dep]; fr_raw := TDone [w_req 1 [100]%N] [43]%N |}];
      cr_stores := [(setup_py, Some w_manifest_cs)]; cr_note_ok := [33]%N; cr_note_fail := [63]%N |}].
Lemma overlap_witness lv xv :
  let R := w_R (w_T lv xv V1) in
  (forall r, In r w_overlap_runs -> run_ok (t_pipe R) r \/ lv = LibcstNoDiffGuard) /\
  exists res, In res (ct_results (report R w_iv false w_overlap_runs)) /\ disjoint_ok (iv_dir w_iv) res = false.
Proof.
  cbn. split.
  - intros r [<-|[]]. destruct lv; [left|right; reflexivity]. split; [reflexivity|]. split.
    + repeat constructor.
    + intros ty cs [H|[]]. inversion H; subst. reflexivity.
  - destruct lv, xv; eexists; (split; [left; reflexivity|vm_compute; reflexivity]).
Qed.

(** a non-trivial run on which every law is exercised: two codemods (one with a tool), a changed, an unchanged and a failed
    file, a dependency written to a manifest *)
Definition ex_tool : tool_meta := {| tm_name := [83]%N; tm_rules := [{| ru_id := [114; 49]%N; ru_name := [78]%N; ru_url := Some [85]%N |}] |}.
Definition ex_cm2 : codemod :=
  {| cm_id := [120]%N; cm_summary := [115]%N; cm_description := [100]%N; cm_tool := Some ex_tool;
     cm_refs := [mk_reference RefDescOrUrl [117]%N None] |}.
Definition b_py : str := [98; 46; 112; 121]%N.
Definition c_py : str := [99; 46; 112; 121]%N.
Definition req_txt : str := [114; 46; 116; 120; 116]%N.
Definition ex_runs : list cm_run :=
  [{| cr_cm := w_cm; cr_pipe := PLibcst;
      cr_files := Some [{| fr_path := a_py; fr_has_results := false; fr_findings := []; fr_parse_ok := true; fr_reported := [];
                           fr_deps := [w_dep]; fr_raw := TDone [w_req 1 [100]%N; w_req 4 [101]%N] [43]%N |};
                        w_file b_py false TRaise;
                        {| fr_path := c_py; fr_has_results := false; fr_findings := []; fr_parse_ok := true; fr_reported := [];
                           fr_deps := []; fr_raw := TDone [] [] |}];
      cr_stores := [(req_txt, Some {| cs_path := req_txt; cs_diff := [43]%N; cs_changes := [w_change]; cs_ai := None |})];
      cr_note_ok := [33]%N; cr_note_fail := [63]%N |};
   {| cr_cm := ex_cm2; cr_pipe := PLibcst;
      cr_files := Some [{| fr_path := a_py; fr_has_results := true; fr_findings := [w_finding]; fr_parse_ok := true;
                           fr_reported := [to_unfixed a_py (Some 7%Z) [110]%N w_finding]; fr_deps := [];
                           fr_raw := TDone [{| rq_line := 2; rq_desc := [100]%N; rq_findings := [w_finding] |}] [43]%N |};
                        {| fr_path := b_py; fr_has_results := true; fr_findings := [w_finding]; fr_parse_ok := false;
                           fr_reported := []; fr_deps := []; fr_raw := TRaise |}];
      cr_stores := []; cr_note_ok := []; cr_note_fail := [] |}].

(* ---------------- table-indexed statements ---------------- *)
Definition validators_statement (vl : line_validator) (vd : desc_validator) : Prop :=
  let V := {| v_line := vl; v_desc := vd |} in
  match vl, vd with
  | LineUnchecked, _ => exists c, mk_change V 0 (Some [100%N]) SideRight None None None = Some c /\ ch_line c = 0%Z
  | LineLt b, DescUnchecked => exists l c, mk_change V l (Some []) SideRight None None None = Some c /\ ch_desc c = Some []
  | LineLt b, DescNonEmptyWhenGiven =>
      if (1 <=? b)%Z then
        strict V /\
        (forall l d s p k f, mk_change V l d s p k f = None <-> ((l < b)%Z \/ d = Some [])) /\
        (forall l d s p k f c, mk_change V l d s p k f = Some c ->
           c = {| ch_line := l; ch_desc := d; ch_side := s; ch_props := p; ch_pkgs := k; ch_findings := f |} /\
           (1 <= ch_line c)%Z /\ ch_desc c <> Some [])
      else exists c, mk_change V 0 (Some [100%N]) SideRight None None None = Some c /\ ch_line c = 0%Z
  end.
Lemma validators_all vl vd : validators_statement vl vd.
Proof.
  unfold validators_statement. destruct vl as [b|].
  - destruct vd.
    + destruct (1 <=? b)%Z eqn:E.
      * assert (HS : strict {| v_line := LineLt b; v_desc := DescNonEmptyWhenGiven |}).
        { split; [exists b; split; [reflexivity|lia]|reflexivity]. }
        split; [exact HS|]. split.
        -- intros l d s p k f. unfold mk_change, line_rejects, desc_rejects; cbn.
           destruct (l <? b)%Z eqn:El; cbn.
           ++ split; [intros _; left; lia|reflexivity].
           ++ destruct d as [[|x d]|]; cbn; split; try discriminate; auto; intros [H|H]; try lia; discriminate.
        -- intros l d s p k f c H. destruct (mk_change_strict _ _ _ _ _ _ _ _ HS H) as [-> [H1 H2]]. cbn. auto.
      * eexists. unfold mk_change, line_rejects, desc_rejects; cbn.
        assert (H0 : (0 <? b)%Z = false) by lia. rewrite H0. cbn. split; reflexivity.
    + exists b. eexists. unfold mk_change, line_rejects, desc_rejects; cbn. rewrite Z.ltb_irrefl. cbn. split; reflexivity.
  - eexists. unfold mk_change; cbn. destruct vd; cbn; split; reflexivity.
Qed.

Definition wellformed_law : Prop :=
  forall R iv nf runs res,
    strict (t_val (t_pipe R)) -> (forall r, In r runs -> run_ok (t_pipe R) r) ->
    In res (ct_results (report R iv nf runs)) -> forallb changeset_ok (rs_changeset res) = true.
Definition schema_law : Prop :=
  forall R iv nf runs,
    strict (t_val (t_pipe R)) -> (forall r, In r runs -> run_ok (t_pipe R) r) ->
    schema_ok (to_json (report R iv nf runs)) = true.

Definition changesets_wellformed_statement (lv : libcst_apply_variant) : Prop :=
  match lv with
  | LibcstGuardChangesDiff => wellformed_law
  | LibcstNoDiffGuard =>
      exists R runs res, t_libcst (t_pipe R) = lv /\ strict (t_val (t_pipe R)) /\
                         In res (ct_results (report R w_iv false runs)) /\ forallb changeset_ok (rs_changeset res) = false
  end.
Lemma changesets_wellformed_all' lv : changesets_wellformed_statement lv.
Proof.
  destruct lv; cbn.
  - intros R iv nf runs res HV Hr Hin. eapply changesets_wellformed_all; eauto.
  - destruct (nodiff_witness XmlDescOrNoneNoDiffGuard) as [_ [res [H1 H2]]].
    exists (w_R (w_T LibcstNoDiffGuard XmlDescOrNoneNoDiffGuard V1)), w_nodiff_runs, res.
    split; [reflexivity|]. split; [|split; assumption].
    split; [exists 1%Z; split; [reflexivity|lia]|reflexivity].
Qed.

Definition schema_statement (lv : libcst_apply_variant) : Prop :=
  match lv with
  | LibcstGuardChangesDiff => schema_law
  | LibcstNoDiffGuard =>
      exists R runs, t_libcst (t_pipe R) = lv /\ strict (t_val (t_pipe R)) /\
                     schema_ok (to_json (report R w_iv false runs)) = false
  end.
Lemma schema_all lv : schema_statement lv.
Proof.
  destruct lv; cbn.
  - intros R iv nf runs HV Hr. apply schema_ok_all; auto.
  - destruct (nodiff_witness XmlDescOrNoneNoDiffGuard) as [H _].
    exists (w_R (w_T LibcstNoDiffGuard XmlDescOrNoneNoDiffGuard V1)), w_nodiff_runs.
    split; [reflexivity|]. split; [|exact H].
    split; [exists 1%Z; split; [reflexivity|lia]|reflexivity].
Qed.

Definition xml_statement (xv : xml_apply_variant) : Prop :=
  (* in every variant the base-class description "" yields changes without description *)
  (exists R runs res cs ch, t_xml (t_pipe R) = xv /\ strict (t_val (t_pipe R)) /\
       In res (ct_results (report R w_iv false runs)) /\ In cs (rs_changeset res) /\ In ch (cs_changes cs) /\
       ch_desc ch = None /\ change_ok ch = false) /\
  match xv with
  | XmlDescOrNoneDiffGuard => wellformed_law /\ schema_law      (* with the guard and a non-empty description: [good_pipe] *)
  | XmlDescOrNoneNoDiffGuard =>
      exists R runs res cs, t_xml (t_pipe R) = xv /\ strict (t_val (t_pipe R)) /\
        In res (ct_results (report R w_iv false runs)) /\ In cs (rs_changeset res) /\ cs_diff cs = [] /\
        schema_ok (to_json (report R w_iv false runs)) = false
  end.
Lemma strict_V1 : strict V1.
Proof. split; [exists 1%Z; split; [reflexivity|lia]|reflexivity]. Qed.
Lemma xml_all xv : xml_statement xv.
Proof.
  split.
  - destruct (xml_desc_none_witness LibcstGuardChangesDiff xv) as [res [cs [ch [H1 [H2 [H3 [H4 [H5 _]]]]]]]].
    exists (w_R (w_T LibcstGuardChangesDiff xv V1)), (w_xml_runs [43%N]), res, cs, ch.
    split; [reflexivity|]. split; [apply strict_V1|auto].
  - destruct xv.
    + destruct (xml_empty_diff_witness LibcstGuardChangesDiff) as [H [res [cs [H1 [H2 H3]]]]].
      eexists (w_R (w_T LibcstGuardChangesDiff XmlDescOrNoneNoDiffGuard V1)), _, res, cs.
      split; [reflexivity|]. split; [apply strict_V1|]. split; [exact H1|]. split; [exact H2|]. split; [exact H3|exact H].
    + split.
      * intros R iv nf runs res HV Hr Hin. eapply changesets_wellformed_all; eauto.
      * intros R iv nf runs HV Hr. apply schema_ok_all; auto.
Qed.

(** failed ∩ changed: the only possible common file is the manifest rewritten by the dependency manager *)
Definition disjoint_law : Prop :=
  forall R iv nf runs r cs,
    NoDup (map rid runs) -> In r runs -> NoDup (map fr_path (files_of r)) ->
    let res := compile_result (t_update R) (iv_dir iv) (apply_codemods (t_apply R) (t_pipe R) nf runs) r in
    In cs (rs_changeset res) -> In (abs_of (iv_dir iv) (cs_path cs)) (failed_of res) ->
    exists ty cs0, first_store (cr_stores r) = Some (ty, cs0) /\ cs_path cs = cs_path cs0 /\
                   In (cs_path cs0) (map fr_path (files_of r)).
Lemma disjoint_all : disjoint_law.
Proof. intros R iv nf runs r cs H1 H2 H3. apply failed_changed_all; auto. Qed.

(** hence: when the manifest written for a codemod is not one of the files that codemod was given, the two lists are disjoint *)
Lemma disjoint_ok_all R iv nf runs r :
  NoDup (map rid runs) -> In r runs -> NoDup (map fr_path (files_of r)) ->
  (forall ty cs0, first_store (cr_stores r) = Some (ty, cs0) -> ~ In (cs_path cs0) (map fr_path (files_of r))) ->
  disjoint_ok (iv_dir iv) (compile_result (t_update R) (iv_dir iv) (apply_codemods (t_apply R) (t_pipe R) nf runs) r) = true.
Proof.
  intros H1 H2 H3 H4. unfold disjoint_ok. apply forallb_forall. intros cs Hcs.
  destruct (mem_str _ _) eqn:E; [|reflexivity]. exfalso.
  apply mem_str_In in E.
  destruct (failed_changed_all R iv runs r cs nf H1 H2 H3 Hcs E) as [ty [cs0 [Hf [_ Hin]]]].
  eapply H4; eauto.
Qed.

Lemma ex_runs_ok xv : forall r, In r ex_runs -> run_ok (w_T LibcstGuardChangesDiff xv V1) r.
Proof.
  intros r [<-|[<-|[]]]; (split; [reflexivity|]); split.
  - repeat constructor.
  - intros ty cs [H|[]]. inversion H; subst. reflexivity.
  - repeat constructor.
  - intros ty cs [].
Qed.

(* ---------------- the regex pipeline ---------------- *)
(** With failure handling no file can abort the run (so the first clause of [file_pre] is automatic); without it a file
    that cannot be decoded, or a pipeline whose [change_description] is "", aborts the run and no report is written. *)
Definition regex_statement (rv : regex_apply_variant) : Prop :=
  match rv with
  | RegexFailureHandled => forall T p f, t_regex T = rv -> pipe_aborts T p f = false
  | RegexNoFailureHandling =>
      exists T f, t_regex T = rv /\ strict (t_val T) /\ file_ok f /\
                  pipe_aborts T (PRegex []) f = true /\ report_opt (w_R T) w_iv false [w_run (PRegex []) [f]] = None
  end.
Lemma regex_all rv : regex_statement rv.
Proof.
  destruct rv; cbn.
  - refine (ex_intro _ {| t_libcst := LibcstGuardChangesDiff; t_xml := XmlDescOrNoneDiffGuard; t_regex := RegexNoFailureHandling;
                          t_fail := FailureLineZero; t_val := V1 |}
             (ex_intro _ (w_file a_py true (TDone [w_req 1 []] [43%N]))
                (conj eq_refl (conj strict_V1 (conj (conj eq_refl eq_refl) (conj _ _)))))); vm_compute; reflexivity.
  - intros T p f H. destruct p; cbn; try reflexivity. unfold regex_aborts. rewrite H. reflexivity.
Qed.

(** a regex run that satisfies the premises of the laws, with a changeset *)
Definition w_regex_runs : list cm_run :=
  [w_run (PRegex [100%N]) [w_file a_py true (TDone [w_req 2 []] [43%N]); w_file b_py false TRaise]].
Lemma w_regex_runs_ok lv xv : forall r, In r w_regex_runs -> run_ok (w_T lv xv V1) r.
Proof.
  intros r [<-|[]]. split; [exact I|]. split.
  - constructor; [|constructor; [|constructor]].
    + split; [split; reflexivity|]. split; [reflexivity|]. cbn. intros _. discriminate.
    + split; [split; reflexivity|]. split; [reflexivity|exact I].
  - intros ty cs [].
Qed.
