import libcst as cst

from codemodder.codemods.libcst_transformer import (
    LibcstResultTransformer,
    LibcstTransformerPipeline,
)
from codemodder.codemods.utils_mixin import NameAndAncestorResolutionMixin
from core_codemods.api import Metadata, Reference, ReviewGuidance
from core_codemods.api.core_codemod import CoreCodemod


class FixFloatEqualityTransformer(
    LibcstResultTransformer, NameAndAncestorResolutionMixin
):
    change_description = "Replace `==` or `!=` with `math.isclose`"

    def leave_Comparison(
        self, original_node: cst.Comparison, updated_node: cst.Comparison
    ) -> cst.BaseExpression:
        if not self.node_is_selected(original_node):
            return updated_node

        match original_node:
            case cst.Comparison(
                left=left, comparisons=[cst.ComparisonTarget() as target]
            ):
                if isinstance(
                    target.operator, cst.Equal | cst.NotEqual
                ) and self.at_least_one_float(left, right := target.comparator):
                    self.add_needed_import("math")
                    isclose_call = self.make_isclose_call(left, right)
                    self.report_change(original_node)
                    return (
                        isclose_call
                        if isinstance(target.operator, cst.Equal)
                        else cst.UnaryOperation(
                            operator=cst.Not(),
                            expression=isclose_call,
                            lpar=original_node.lpar,
                            rpar=original_node.rpar,
                        )
                    )
        return updated_node

    def make_isclose_call(self, left, right):
        return cst.Call(
            func=cst.Attribute(
                value=cst.Name(value="math"), attr=cst.Name(value="isclose")
            ),
            args=[
                cst.Arg(value=left),
                cst.Arg(value=right),
                cst.Arg(
                    keyword=cst.Name(value="rel_tol"),
                    value=cst.Float(value="1e-09"),
                    equal=cst.AssignEqual(
                        whitespace_before=cst.SimpleWhitespace(""),
                        whitespace_after=cst.SimpleWhitespace(""),
                    ),
                ),
                cst.Arg(
                    keyword=cst.Name(value="abs_tol"),
                    value=cst.Float(value="0.0"),
                    equal=cst.AssignEqual(
                        whitespace_before=cst.SimpleWhitespace(""),
                        whitespace_after=cst.SimpleWhitespace(""),
                    ),
                ),
            ],
        )

    def at_least_one_float(self, left, right) -> bool:
        left_type = self.resolve_expression(left)
        right_type = self.resolve_expression(right)

        match (left_type, right_type):
            case (cst.Float(), _) | (_, cst.Float()):
                return True
            case (cst.BinaryOperation(), _):
                return self.at_least_one_float(left_type.left, left_type.right)
            case (_, cst.BinaryOperation()):
                return self.at_least_one_float(right_type.left, right_type.right)
        return False


FixFloatEquality = CoreCodemod(
    metadata=Metadata(
        name="fix-float-equality",
        summary="Use `math.isclose` Instead of Direct Equality for Floats",
        review_guidance=ReviewGuidance.MERGE_AFTER_REVIEW,
        references=[
            Reference(
                url="https://docs.python.org/3/tutorial/floatingpoint.html#floating-point-arithmetic-issues-and-limitations"
            ),
            Reference(url="https://docs.python.org/3/library/math.html#math.isclose"),
        ],
    ),
    transformer=LibcstTransformerPipeline(FixFloatEqualityTransformer),
    detector=None,
)
