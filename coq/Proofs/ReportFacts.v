(** Facts about the run -> report pipeline of Model/Report.v. *)
From CM Require Import Model.Report Spec.ReportSpec Proofs.DictFacts Proofs.ReportSchemaFacts.
From Coq Require Import Lia ZifyBool.

(* ---------------- validators and per-file pipelines ---------------- *)
Definition strict (V : validators) : Prop :=
  (exists b, v_line V = LineLt b /\ (1 <= b)%Z) /\ v_desc V = DescNonEmptyWhenGiven.

Lemma change_ok_valid c : change_ok c = true -> change_valid c = true.
Proof.
  unfold change_ok, change_valid. intros H. apply andb_true_iff in H as [H1 H2]. rewrite H1.
  destruct (ch_desc c) as [[|]|]; try discriminate; reflexivity.
Qed.

Lemma mk_change_strict V l d s p k f c :
  strict V -> mk_change V l d s p k f = Some c ->
  c = {| ch_line := l; ch_desc := d; ch_side := s; ch_props := p; ch_pkgs := k; ch_findings := f |} /\
  (1 <= l)%Z /\ d <> Some [].
Proof.
  intros [[b [Hb Hle]] Hd]. unfold mk_change. rewrite Hb, Hd. unfold line_rejects, desc_rejects.
  destruct (l <? b)%Z eqn:E; [discriminate|]. destruct d as [[|]|]; cbn; try discriminate;
    intros H; inversion H; subst; (split; [reflexivity|split; [lia|congruence]]).
Qed.

Lemma build_changes_strict V reqs chs :
  strict V -> build_changes V reqs = Some chs ->
  forallb change_ok chs = true /\ map ch_line chs = map rq_line reqs /\ (reqs <> [] -> chs <> []).
Proof.
  intros HV. revert chs. induction reqs as [|q r IH]; intros chs; cbn.
  - intros H; inversion H; subst. repeat split; auto.
  - destruct (mk_change _ _ _ _ _ _ _) as [c|] eqn:E; [|discriminate].
    destruct (build_changes V r) as [cs|]; [|discriminate]. intros H; inversion H; subst.
    destruct (IH cs eq_refl) as [I1 [I2 _]].
    destruct (mk_change_strict _ _ _ _ _ _ _ _ HV E) as [-> [Hl Hd]].
    repeat split.
    + cbn. rewrite I1. unfold change_ok. cbn. destruct (rq_desc q); [exfalso; apply Hd; reflexivity|]. cbn.
      apply Z.leb_le in Hl. rewrite Hl. reflexivity.
    + cbn. now rewrite I2.
    + discriminate.
Qed.

Lemma xml_changes_strict V cd reqs chs :
  strict V -> cd <> [] -> xml_changes V cd reqs = Some chs ->
  forallb change_ok chs = true /\ (reqs <> [] -> chs <> []).
Proof.
  intros HV Hcd. revert chs. induction reqs as [|q r IH]; intros chs; cbn.
  - intros H; inversion H; subst. split; auto.
  - destruct (mk_change _ _ _ _ _ _ _) as [c|] eqn:E; [|discriminate].
    destruct (xml_changes V cd r) as [cs|]; [|discriminate]. intros H; inversion H; subst.
    destruct (IH cs eq_refl) as [I1 _].
    destruct (mk_change_strict _ _ _ _ _ _ _ _ HV E) as [-> [Hl Hd]].
    split; [|discriminate].
    cbn. rewrite I1. unfold change_ok. cbn. destruct cd; [exfalso; apply Hcd; reflexivity|]. cbn.
    apply Z.leb_le in Hl. rewrite Hl. reflexivity.
Qed.

Lemma regex_changes_strict V cd reqs chs :
  strict V -> regex_changes V cd reqs = Some chs ->
  forallb change_ok chs = true /\ (reqs = [] -> chs = []).
Proof.
  intros HV. revert chs. induction reqs as [|q r IH]; intros chs; cbn.
  - intros H; inversion H; subst. split; auto.
  - destruct (mk_change _ _ _ _ _ _ _) as [c|] eqn:E; [|discriminate].
    destruct (regex_changes V cd r) as [cs|]; [|discriminate]. intros H; inversion H; subst.
    destruct (IH cs eq_refl) as [I1 _].
    destruct (mk_change_strict _ _ _ _ _ _ _ _ HV E) as [-> [Hl Hd]].
    split; [|discriminate].
    cbn. rewrite I1. unfold change_ok. cbn. destruct cd; [exfalso; apply Hd; reflexivity|]. cbn.
    apply Z.leb_le in Hl. rewrite Hl. reflexivity.
Qed.

(** the tables under which the positive statements hold *)
Definition good_pipe (T : tables) (p : pipe_kind) : Prop :=
  match p with
  | PLibcst => t_libcst T = LibcstGuardChangesDiff
  | PXml cd => t_xml T = XmlDescOrNoneDiffGuard /\ cd <> []
  | PRegex _ => True
  end.

(** per file, for the regex pipeline (which has no diff guard and, on the pinned tree, no failure handling): the run is not
    aborted by this file, and difflib's contract: when some line was rewritten the diff is not empty *)
Definition file_pre (T : tables) (p : pipe_kind) (f : file_run) : Prop :=
  match p with
  | PRegex _ => pipe_aborts T p f = false /\
                match fr_raw f with TDone reqs diff => reqs <> [] -> diff <> [] | TRaise => True end
  | _ => True
  end.

Definition file_ok (f : file_run) : Prop :=
  relative_path (fr_path f) = true /\ forallb unfixed_line_ok (fr_reported f) = true.

(** what one file contributes: at most one changeset, for this file, well formed; or a failure of this file; never both *)
Definition file_ctx_shape (f : file_run) (fc : file_ctx) : Prop :=
  ((fc_changesets fc = [] /\ (fc_failures fc = [] \/ fc_failures fc = [fr_path f])) \/
   (exists cs, fc_changesets fc = [cs] /\ cs_path cs = fr_path f /\ fc_failures fc = [])).

Lemma unfixed_fail_ok f reason pre :
  forallb unfixed_line_ok pre = true ->
  forallb unfixed_line_ok (pre ++ map (to_unfixed (fr_path f) (Some 0%Z) reason) (fr_findings f)) = true.
Proof.
  intros H. rewrite forallb_app, H. cbn. apply forallb_forall. intros u Hu.
  apply in_map_iff in Hu as [x [<- _]]. reflexivity.
Qed.

Lemma regex_file_shape rv fv V cd f : file_ctx_shape f (regex_file rv fv V cd f).
Proof.
  unfold file_ctx_shape, regex_file.
  destruct (fr_has_results f && is_nil (fr_findings f)); cbn; auto.
  destruct (negb (fr_parse_ok f)); [destruct (regex_handles rv); [destruct fv|]; cbn; auto|].
  assert (HF : forall fc, fc = (if regex_handles rv then fail_ctx fv f r_transform (fr_reported f) (fr_deps f) else empty_file_ctx) ->
               fc_changesets fc = [] /\ (fc_failures fc = [] \/ fc_failures fc = [fr_path f])).
  { intros fc ->. destruct (regex_handles rv); [destruct fv|]; cbn; auto. }
  destruct (fr_raw f) as [|reqs diff]; [left; apply HF; reflexivity|].
  destruct (regex_changes _ _ _) as [chs|]; [|left; apply HF; reflexivity].
  destruct (is_nil chs); cbn; auto. right. eexists; repeat split.
Qed.

Lemma pipe_file_shape T p f : file_ctx_shape f (pipe_file T p f).
Proof.
  destruct p as [|cd|cd]; [| |apply regex_file_shape];
  unfold file_ctx_shape; cbn [pipe_file]; [unfold libcst_file|unfold xml_file];
  destruct (fr_has_results f && is_nil (fr_findings f)); cbn; auto;
  destruct (negb (fr_parse_ok f)); (destruct (t_fail T); cbn; auto);
  destruct (fr_raw f) as [|reqs diff]; cbn; auto.
  - destruct (build_changes _ _) as [chs|]; cbn; auto.
    destruct (is_nil chs); cbn; auto. destruct (libcst_guards_diff _ && is_nil diff); cbn; auto.
    right. eexists; repeat split.
  - destruct (xml_changes _ _ _) as [chs|]; cbn; auto.
    destruct (is_nil chs); cbn; auto. destruct (xml_guards_diff _ && is_nil diff); cbn; auto.
    right. eexists; repeat split.
Qed.

Lemma is_nil_false {A} (l : list A) : is_nil l = false -> l <> [].
Proof. destruct l; [discriminate|congruence]. Qed.

Lemma regex_file_ok T cd f :
  strict (t_val T) -> file_ok f -> file_pre T (PRegex cd) f ->
  forallb changeset_ok (fc_changesets (pipe_file T (PRegex cd) f)) = true /\
  forallb unfixed_line_ok (fc_unfixed (pipe_file T (PRegex cd) f)) = true.
Proof.
  intros HV [Hrel Hrep] [_ Hdiff]. cbn [pipe_file]. unfold regex_file.
  destruct (fr_has_results f && is_nil (fr_findings f)); cbn; auto.
  destruct (negb (fr_parse_ok f)).
  { destruct (regex_handles (t_regex T)); [destruct (t_fail T)|]; cbn; auto.
    split; [reflexivity|exact (unfixed_fail_ok f r_read [] eq_refl)]. }
  assert (HF : forall fc, fc = (if regex_handles (t_regex T) then fail_ctx (t_fail T) f r_transform (fr_reported f) (fr_deps f) else empty_file_ctx) ->
               forallb changeset_ok (fc_changesets fc) = true /\ forallb unfixed_line_ok (fc_unfixed fc) = true).
  { intros fc ->. destruct (regex_handles (t_regex T)); [destruct (t_fail T)|]; cbn; auto.
    split; [reflexivity|apply unfixed_fail_ok; assumption]. }
  destruct (fr_raw f) as [|reqs diff]; [apply HF; reflexivity|].
  destruct (regex_changes _ _ _) as [chs|] eqn:E; [|apply HF; reflexivity].
  destruct (regex_changes_strict _ _ _ _ HV E) as [Hok Hnil].
  destruct (is_nil chs) eqn:En; cbn; auto. split; [|assumption].
  assert (Hd : is_nil diff = false).
  { destruct diff; [|reflexivity]. exfalso. apply Hdiff; [|reflexivity]. intros ->. rewrite Hnil in En by reflexivity. discriminate. }
  unfold changeset_ok. cbn. rewrite Hrel, Hd, En, Hok. reflexivity.
Qed.

Lemma pipe_file_ok T p f :
  strict (t_val T) -> good_pipe T p -> file_ok f -> file_pre T p f ->
  forallb changeset_ok (fc_changesets (pipe_file T p f)) = true /\
  forallb unfixed_line_ok (fc_unfixed (pipe_file T p f)) = true.
Proof.
  intros HV HP Hok Hpre. destruct p as [|cd|cd]; [| |apply regex_file_ok; assumption];
  destruct Hok as [Hrel Hrep]; clear Hpre;
  cbn [pipe_file good_pipe] in *; [unfold libcst_file|unfold xml_file];
  destruct (fr_has_results f && is_nil (fr_findings f)); cbn; auto;
  destruct (negb (fr_parse_ok f)); (destruct (t_fail T); cbn [fail_ctx fc_changesets fc_unfixed forallb]; auto);
  try (split; [reflexivity|apply unfixed_fail_ok; reflexivity]);
  destruct (fr_raw f) as [|reqs diff]; cbn [fc_changesets fc_unfixed forallb];
  try (split; [reflexivity|apply unfixed_fail_ok; assumption]).
  - destruct (build_changes _ _) as [chs|] eqn:E; cbn [fc_changesets fc_unfixed forallb];
      try (split; [reflexivity|apply unfixed_fail_ok; assumption]).
    destruct (build_changes_strict _ _ _ HV E) as [Hok _].
    destruct (is_nil chs) eqn:En; cbn; auto. rewrite HP. cbn.
    destruct (is_nil diff) eqn:Ed; cbn; auto. split; [|assumption].
    unfold changeset_ok. cbn. rewrite Hrel, Ed, En, Hok. reflexivity.
  - destruct HP as [HP Hcd]. destruct (xml_changes _ _ _) as [chs|] eqn:E; cbn [fc_changesets fc_unfixed forallb];
      try (split; [reflexivity|apply unfixed_fail_ok; assumption]).
    destruct (xml_changes_strict _ _ _ _ HV Hcd E) as [Hok _].
    destruct (is_nil chs) eqn:En; cbn; auto. rewrite HP. cbn.
    destruct (is_nil diff) eqn:Ed; cbn; auto. split; [|assumption].
    unfold changeset_ok. cbn. rewrite Hrel, Ed, En, Hok. reflexivity.
Qed.

(* ---------------- the aggregates: projections on one codemod id ---------------- *)
Lemma getl_extend_same {A} k (l : list A) d : getl k (extend k l d) = getl k d ++ l.
Proof. unfold extend, getl at 1. now rewrite (dget_dset_same str_eqb str_eqb_spec). Qed.
Lemma getl_extend_other {A} k id (l : list A) d : k <> id -> getl k (extend id l d) = getl k d.
Proof. intros H. unfold extend, getl. now rewrite (dget_dset_other str_eqb str_eqb_spec) by assumption. Qed.
Lemma getl_dset_same {A} k (l : list A) d : getl k (dset str_eqb k l d) = l.
Proof. unfold getl. now rewrite (dget_dset_same str_eqb str_eqb_spec). Qed.
Lemma getl_dset_other {A} k id (l : list A) d : k <> id -> getl k (dset str_eqb id l d) = getl k d.
Proof. intros H. unfold getl. now rewrite (dget_dset_other str_eqb str_eqb_spec) by assumption. Qed.

(** everything the context holds for codemod [k] *)
Record view := { vw_cs : list changeset; vw_fail : list str; vw_unf : list unfixed; vw_deps : list dep; vw_upd : option (option str) }.
Definition proj (k : str) (c : ctx) : view :=
  {| vw_cs := getl k (cx_changesets c); vw_fail := getl k (cx_failures c); vw_unf := getl k (cx_unfixed c);
     vw_deps := getl k (cx_deps c); vw_upd := dget str_eqb k (cx_dep_update c) |}.

Definition add_file_view (v : view) (fc : file_ctx) : view :=
  {| vw_cs := vw_cs v ++ fc_changesets fc; vw_fail := vw_fail v ++ fc_failures fc; vw_unf := vw_unf v ++ fc_unfixed fc;
     vw_deps := dep_union (vw_deps v) (fc_deps fc); vw_upd := vw_upd v |}.
Definition deps_view (stores : list (str * option changeset)) (v : view) : view :=
  if is_nil (vw_deps v) then v
  else if is_nil stores then {| vw_cs := vw_cs v; vw_fail := vw_fail v; vw_unf := vw_unf v; vw_deps := vw_deps v; vw_upd := Some None |}
  else match first_store stores with
       | None => v
       | Some (ty, cs) => {| vw_cs := vw_cs v ++ [cs]; vw_fail := vw_fail v; vw_unf := vw_unf v; vw_deps := vw_deps v; vw_upd := Some (Some ty) |}
       end.
Definition run_view (T : tables) (r : cm_run) (v : view) : view :=
  deps_view (cr_stores r)
    (match cr_files r with None => v | Some fs => fold_left add_file_view (map (pipe_file T (cr_pipe r)) fs) v end).

Lemma proj_add_file_same k c fc : proj k (add_file_ctx k c fc) = add_file_view (proj k c) fc.
Proof. unfold proj, add_file_ctx, add_file_view; cbn. now rewrite !getl_extend_same, getl_dset_same. Qed.
Lemma proj_add_file_other k id c fc : k <> id -> proj k (add_file_ctx id c fc) = proj k c.
Proof. intros H. unfold proj, add_file_ctx; cbn. now rewrite !getl_extend_other, getl_dset_other by assumption. Qed.

Lemma proj_process_results_same k fcs c : proj k (process_results k fcs c) = fold_left add_file_view fcs (proj k c).
Proof.
  unfold process_results. revert c. induction fcs as [|fc r IH]; intros c; cbn; [reflexivity|].
  now rewrite IH, proj_add_file_same.
Qed.
Lemma proj_process_results_other k id fcs c : k <> id -> proj k (process_results id fcs c) = proj k c.
Proof.
  intros H. unfold process_results. revert c. induction fcs as [|fc r IH]; intros c; cbn; [reflexivity|].
  now rewrite IH, proj_add_file_other.
Qed.

Lemma proj_deps_same k stores c : proj k (process_dependencies k stores c) = deps_view stores (proj k c).
Proof.
  unfold process_dependencies, deps_view. cbn [proj vw_deps].
  destruct (is_nil (getl k (cx_deps c))); [reflexivity|].
  destruct (is_nil stores).
  - unfold proj; cbn. now rewrite (dget_dset_same str_eqb str_eqb_spec).
  - destruct (first_store stores) as [[ty cs]|]; [|reflexivity].
    unfold proj; cbn. now rewrite getl_extend_same, (dget_dset_same str_eqb str_eqb_spec).
Qed.
Lemma proj_deps_other k id stores c : k <> id -> proj k (process_dependencies id stores c) = proj k c.
Proof.
  intros H. unfold process_dependencies.
  destruct (is_nil (getl id (cx_deps c))); [reflexivity|].
  destruct (is_nil stores).
  - unfold proj; cbn. now rewrite (dget_dset_other str_eqb str_eqb_spec) by assumption.
  - destruct (first_store stores) as [[ty cs]|]; [|reflexivity].
    unfold proj; cbn. now rewrite getl_extend_other, (dget_dset_other str_eqb str_eqb_spec) by assumption.
Qed.

Definition rid (r : cm_run) : str := cm_id (cr_cm r).

Lemma proj_apply_same T c r : proj (rid r) (apply_codemod T c r) = run_view T r (proj (rid r) c).
Proof.
  unfold apply_codemod, run_view, rid. rewrite proj_deps_same. destruct (cr_files r); [|reflexivity].
  now rewrite proj_process_results_same.
Qed.
Lemma proj_apply_other T k c r : k <> rid r -> proj k (apply_codemod T c r) = proj k c.
Proof.
  intros H. unfold apply_codemod. rewrite proj_deps_other by assumption. destruct (cr_files r); [|reflexivity].
  now rewrite proj_process_results_other.
Qed.

Definition empty_view : view := {| vw_cs := []; vw_fail := []; vw_unf := []; vw_deps := []; vw_upd := None |}.
Lemma proj_empty k : proj k empty_ctx = empty_view.
Proof. reflexivity. Qed.

Lemma proj_fold_not_in T k runs c : ~ In k (map rid runs) -> proj k (fold_left (apply_codemod T) runs c) = proj k c.
Proof.
  revert c. induction runs as [|r rs IH]; intros c H; cbn; [reflexivity|].
  cbn in H. rewrite IH by tauto. apply proj_apply_other. intros ->. tauto.
Qed.

(** locality: with distinct codemod ids, what the context holds for a codemod is what that codemod's own execution put there *)
Lemma proj_fold_local T runs c r :
  NoDup (map rid runs) -> In r runs -> proj (rid r) c = empty_view ->
  (forall r', In r' runs -> proj (rid r') c = empty_view) ->
  proj (rid r) (fold_left (apply_codemod T) runs c) = run_view T r empty_view.
Proof.
  revert c. induction runs as [|r0 rs IH]; intros c Hnd Hin Hc Hall; [destruct Hin|].
  cbn in Hnd. inversion Hnd as [|? ? Hn0 Hnd']; subst. cbn [fold_left].
  destruct Hin as [->|Hin].
  - rewrite proj_fold_not_in by assumption. rewrite proj_apply_same, Hc. reflexivity.
  - assert (Hne : rid r <> rid r0) by (intros E; apply Hn0; rewrite <- E; now apply in_map).
    apply IH; auto.
    + rewrite proj_apply_other by assumption. exact Hc.
    + intros r' Hr'. rewrite proj_apply_other; [apply Hall; now right|].
      intros E; apply Hn0; rewrite <- E; now apply in_map.
Qed.

Lemma proj_final T av nf runs r :
  NoDup (map rid runs) -> In r runs ->
  proj (rid r) (apply_codemods av T nf runs) = if nf then empty_view else run_view T r empty_view.
Proof.
  intros Hnd Hin. destruct av; cbn. destruct nf; [reflexivity|].
  apply proj_fold_local; auto.
Qed.

(* ---------------- one codemod's own view ---------------- *)
Lemma fold_add_file_view fcs v :
  let w := fold_left add_file_view fcs v in
  vw_cs w = vw_cs v ++ flat_map fc_changesets fcs /\ vw_fail w = vw_fail v ++ flat_map fc_failures fcs /\
  vw_unf w = vw_unf v ++ flat_map fc_unfixed fcs /\ vw_upd w = vw_upd v.
Proof.
  revert v. induction fcs as [|fc r IH]; intros v; cbn.
  - now rewrite !app_nil_r.
  - destruct (IH (add_file_view v fc)) as [H1 [H2 [H3 H4]]]. cbn in *. rewrite H1, H2, H3, H4, <- !app_assoc. auto.
Qed.

Definition files_of (r : cm_run) : list file_run := match cr_files r with Some fs => fs | None => [] end.
Definition file_ctxs (T : tables) (r : cm_run) : list file_ctx := map (pipe_file T (cr_pipe r)) (files_of r).
(** the changeset the dependency manager contributed, if any *)
Definition manifest_cs (v : view) (r : cm_run) : list changeset :=
  if is_nil (vw_deps v) then [] else if is_nil (cr_stores r) then []
  else match first_store (cr_stores r) with Some (_, cs) => [cs] | None => [] end.

Lemma run_view_empty T r :
  exists m, (m = [] \/ exists ty cs, first_store (cr_stores r) = Some (ty, cs) /\ m = [cs]) /\
  vw_cs (run_view T r empty_view) = flat_map fc_changesets (file_ctxs T r) ++ m /\
  vw_fail (run_view T r empty_view) = flat_map fc_failures (file_ctxs T r) /\
  vw_unf (run_view T r empty_view) = flat_map fc_unfixed (file_ctxs T r).
Proof.
  unfold run_view, file_ctxs, files_of.
  set (w := match cr_files r with Some fs => _ | None => _ end).
  assert (Hw : vw_cs w = flat_map fc_changesets (map (pipe_file T (cr_pipe r)) (match cr_files r with Some fs => fs | None => [] end)) /\
               vw_fail w = flat_map fc_failures (map (pipe_file T (cr_pipe r)) (match cr_files r with Some fs => fs | None => [] end)) /\
               vw_unf w = flat_map fc_unfixed (map (pipe_file T (cr_pipe r)) (match cr_files r with Some fs => fs | None => [] end))).
  { subst w. destruct (cr_files r) as [fs|]; cbn; auto.
    destruct (fold_add_file_view (map (pipe_file T (cr_pipe r)) fs) empty_view) as [H1 [H2 [H3 _]]]. cbn in *. auto. }
  destruct Hw as [H1 [H2 H3]]. unfold deps_view.
  destruct (is_nil (vw_deps w)); [exists []; rewrite app_nil_r; auto|].
  destruct (is_nil (cr_stores r)); [exists []; cbn; rewrite app_nil_r; auto|].
  destruct (first_store (cr_stores r)) as [[ty cs]|] eqn:E; [|exists []; rewrite app_nil_r; auto].
  exists [cs]. cbn. rewrite H1. split; [right; eauto|auto].
Qed.

(* ---------------- update_finding_metadata ---------------- *)
Lemma update_changeset_ok rules cs : changeset_ok (update_changeset rules cs) = changeset_ok cs.
Proof.
  unfold changeset_ok, update_changeset; cbn. f_equal; [f_equal|].
  - destruct (cs_changes cs); reflexivity.
  - rewrite forallb_map_comp. reflexivity.
Qed.
Lemma update_meta_path uv rules css cs :
  In cs (update_finding_metadata uv rules css) -> exists cs0, In cs0 css /\ cs_path cs = cs_path cs0 /\ changeset_ok cs = changeset_ok cs0.
Proof.
  destruct uv; cbn. destruct (is_nil rules); [intros H; exists cs; auto|].
  intros H. apply in_map_iff in H as [cs0 [<- H]]. exists cs0. split; [assumption|]. split; [reflexivity|apply update_changeset_ok].
Qed.

Lemma update_finding_meta_ok rules f : finding_meta_ok rules (update_finding rules f).
Proof.
  unfold finding_meta_ok, update_finding. destruct (rule_lookup (fi_id f) rules) as [r|] eqn:E; cbn; rewrite E; auto.
Qed.
Lemma update_meta_findings_ok uv rules css :
  rules <> [] ->
  Forall (fun cs => Forall (fun ch => Forall (finding_meta_ok rules) (change_findings ch)) (cs_changes cs))
         (update_finding_metadata uv rules css).
Proof.
  intros Hr. destruct uv; cbn. destruct rules; [congruence|]. cbn [is_nil].
  apply Forall_forall. intros cs H. apply in_map_iff in H as [cs0 [<- _]]. cbn.
  apply Forall_forall. intros ch H. apply in_map_iff in H as [ch0 [<- _]]. unfold change_findings; cbn.
  destruct (ch_findings ch0); cbn; [|constructor].
  apply Forall_forall. intros f H. apply in_map_iff in H as [f0 [<- _]]. apply update_finding_meta_ok.
Qed.

Lemma abs_of_inj dir a b : abs_of dir a = abs_of dir b -> a = b.
Proof. unfold abs_of. destruct (str_eqb dir [46%N]); [auto|]. intros H. now apply app_inv_head in H; apply app_inv_head in H. Qed.
