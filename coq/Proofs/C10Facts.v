(** C10: an unprocessable file is isolated.  Step level: each file's outcome is a function of its own content;
    a failing file is recorded and not written.  Run level: simulation between the run on the project and the run on
    the project without the bad file. *)
From CM Require Import Base.Dict Model.Run Spec.RunSpec Proofs.DictFacts Proofs.RunFacts Proofs.RunSteps.

Definition without (p : path) (l : list path) : list path := List.filter (fun q => negb (str_eqb q p)) l.
Definition cfg_without (p : path) (cfg : config) : config :=
  {| dry_run := dry_run cfg; all_files := without p (all_files cfg); ff_paths := without p (ff_paths cfg);
     scan_all := without p (scan_all cfg) |}.
Definition unf_path (u : unfixed) : path := snd (fst (fst u)).
Definition unf_without (p : path) (l : list unfixed) : list unfixed :=
  List.filter (fun u => negb (str_eqb (unf_path u) p)) l.

Lemma without_app p a b : without p (a ++ b) = without p a ++ without p b.
Proof. apply filter_app. Qed.
Lemma unf_without_app p a b : unf_without p (a ++ b) = unf_without p a ++ unf_without p b.
Proof. apply filter_app. Qed.
Lemma unf_without_failure p r fi : unf_without p (failure_unfixed p r fi) = [].
Proof.
  unfold failure_unfixed. destruct fi as [l|]; [|reflexivity].
  induction l as [|f l IH]; simpl; [reflexivity|]. unfold unf_path. simpl. rewrite str_eqb_refl. simpl. exact IH.
Qed.
Lemma filter_filter_comm {A} (f g : A -> bool) l : filter f (filter g l) = filter g (filter f l).
Proof.
  induction l as [|x l IH]; simpl; [reflexivity|].
  destruct (g x) eqn:G, (f x) eqn:F; simpl; rewrite ?G, ?F, IH; reflexivity.
Qed.

(** aggregates related between the run WITH the bad file (a) and the run WITHOUT it (b) *)
Record sim (p : path) (a b : state) : Prop := {
  sim_fs : s_fs a = s_fs b;
  sim_stores : s_stores a = s_stores b;
  sim_cs : forall id, dgetl id (s_cs a) = dgetl id (s_cs b);
  sim_deps : forall id, dgetl id (s_deps a) = dgetl id (s_deps b);
  sim_upd : forall id, dget str_eqb id (s_upd a) = dget str_eqb id (s_upd b);
  sim_fail : forall id, without p (dgetl id (s_fail a)) = dgetl id (s_fail b);
  sim_unf : forall id, unf_without p (dgetl id (s_unf a)) = dgetl id (s_unf b);
}.

Lemma dget_dset {V : Type} k k' (v : V) d :
  dget str_eqb k (dset str_eqb k' v d) = if str_eqb k k' then Some v else dget str_eqb k d.
Proof.
  destruct (str_eqb_spec k k') as [->|Hne].
  - apply (dget_dset_same str_eqb str_eqb_spec).
  - now apply (dget_dset_other str_eqb str_eqb_spec).
Qed.

Lemma fold_left_ext {A B} (f g : A -> B -> A) l : (forall a x, f a x = g a x) -> forall a, fold_left f l a = fold_left g l a.
Proof. intros H. induction l as [|x l IH]; intros a; simpl; [reflexivity|]. now rewrite H, IH. Qed.

Section C10.
  Variable tb : run_tables.
  Variable tree : Type.
  Variable parse : pipe_kind -> bytes -> option tree.
  Variable code : pipe_kind -> tree -> bytes.
  Variable T : codemod -> tree -> option (list finding) -> outcome tree.
  Variable S : codemod -> path -> bytes -> list finding.
  Variable R : codemod -> list (path * list finding).
  Variable diff : bytes -> bytes -> str.
  Variable W : skind -> option bytes -> list dep -> option (bytes * str * list change).
  Variable fsel : codemod -> path -> bool.

  Local Notation fstep := (file_step tb tree parse code T diff).
  Local Notation pfile := (process_file tb tree parse code T diff).
  Local Notation mfiles := (map_files tb tree parse code T diff).
  Local Notation acodemod := (apply_codemod tb tree parse code T S R diff fsel).
  Local Notation pdeps := (process_dependencies tb W).
  Local Notation acodemods := (apply_codemods tb tree parse code T S R diff W fsel).
  Local Notation mrun := (run tb tree parse code T S R diff W fsel).
  Local Notation fails := (failsb tree parse T).

  (** ---- one failing file ---- *)
  Lemma fstep_fails cfg K res p c :
    tries_present tb (cpipe K) = true -> fails K (findings_for res p) c = true ->
    snd (fstep cfg K res p c) = None /\
    (fst (fstep cfg K res p c) = FCtx empty_fctx /\ findings_for res p = Some [] \/
     exists r, fst (fstep cfg K res p c) =
               FCtx {| fc_cs := []; fc_fail := [p]; fc_unf := failure_unfixed p r (findings_for res p); fc_deps := [] |}
               /\ findings_for res p <> Some []).
  Proof.
    unfold tries_present. rewrite andb_true_iff. intros [G1 G2] Hf. unfold file_step.
    destruct (findings_for res p) as [[|f l]|] eqn:Ef; [split; [reflexivity|left; auto]| |];
      (destruct (papply_fails tb tree parse code T diff cfg K p c _ Hf G1 G2) as [r Hr]; rewrite Hr; simpl;
       split; [reflexivity|right; exists r; split; [reflexivity|discriminate]]).
  Qed.

  (** ---- step level: all files of one codemod (positive branch of C10_isolation) ---- *)
  Lemma isolation_step cfg K res files fs :
    tries_present tb (cpipe K) = true -> NoDup files ->
    (* nothing escapes *)
    ~ In FCrash (fst (mfiles cfg K res fs files)) /\
    (* each file's outcome is a function of its own content: no fault in a sibling can alter it *)
    fst (mfiles cfg K res fs files) = map (fun q => fst (fstep cfg K res q (lookup fs q))) files /\
    (forall q, In q files -> lookup (snd (mfiles cfg K res fs files)) q =
                             match snd (fstep cfg K res q (lookup fs q)) with Some b => Some b | None => lookup fs q end) /\
    (forall q, ~ In q files -> lookup (snd (mfiles cfg K res fs files)) q = lookup fs q) /\
    (* a selected file on which read/decode/parse/transform fails: untouched, failed, all findings unfixed at line 0 *)
    (forall p, In p files -> findings_for res p <> Some [] -> fails K (findings_for res p) (lookup fs p) = true ->
       lookup (snd (mfiles cfg K res fs files)) p = lookup fs p /\
       exists r, fst (fstep cfg K res p (lookup fs p)) =
                 FCtx {| fc_cs := []; fc_fail := [p]; fc_unf := failure_unfixed p r (findings_for res p); fc_deps := [] |}).
  Proof.
    intros Ht Hnd. pose proof Ht as Ht'. unfold tries_present in Ht'. apply andb_true_iff in Ht'. destruct Ht' as [G1 G2].
    split; [now apply mfiles_no_crash|]. split; [now apply mfiles_outs|].
    split; [intros; now apply mfiles_lookup|]. split; [intros; now apply mfiles_frame|].
    intros p Hin Hne Hf. destruct (fstep_fails cfg K res p (lookup fs p) Ht Hf) as [Hw [[_ He]|[r [Hr _]]]]; [contradiction|].
    split; [|eauto]. rewrite mfiles_lookup by assumption. now rewrite Hw.
  Qed.

  (** ---- run level ---- *)
  Variable p : path.             (* the bad file *)
  Variable c0 : option bytes.    (* its content (None: it vanished) *)
  Hypothesis Hbad : forall K fi, fails K fi c0 = true.
  Hypothesis Hnosem : forall K, match c0 with Some b => S K p b | None => [] end = [].

  Lemma unf_without_failure_other q r fi : q <> p -> unf_without p (failure_unfixed q r fi) = failure_unfixed q r fi.
  Proof.
    intros Hne. unfold failure_unfixed. destruct fi as [l|]; [|reflexivity].
    induction l as [|f l IH]; simpl; [reflexivity|]. unfold unf_path. simpl.
    apply str_eqb_neq in Hne. rewrite Hne. simpl. now rewrite IH.
  Qed.

  Lemma fres_of_paths q fi pr c : q <> p -> fres_of q fi pr = FCtx c ->
    without p (fc_fail c) = fc_fail c /\ unf_without p (fc_unf c) = fc_unf c.
  Proof.
    intros Hne. destruct pr; cbn [fres_of]; try discriminate; intros [= <-]; cbn [fc_fail fc_unf]; split; try reflexivity.
    - unfold without. cbn [filter]. apply str_eqb_neq in Hne. now rewrite Hne.
    - now apply unf_without_failure_other.
  Qed.

  Lemma fstep_ctx_paths cfg K res q c' c : q <> p -> fst (fstep cfg K res q c') = FCtx c ->
    without p (fc_fail c) = fc_fail c /\ unf_without p (fc_unf c) = fc_unf c.
  Proof.
    intros Hne. unfold file_step. destruct (findings_for res q) as [[|f l]|]; cbn [fst].
    - intros [= <-]. split; reflexivity.
    - now apply fres_of_paths.
    - now apply fres_of_paths.
  Qed.

  Lemma merge_sim_same id c a b :
    without p (fc_fail c) = fc_fail c -> unf_without p (fc_unf c) = fc_unf c ->
    sim p a b -> sim p (merge_ctx id c a) (merge_ctx id c b).
  Proof.
    intros HF HU [F St C D U FL UN]. constructor; simpl; auto; intros id'.
    - rewrite !dgetl_dext, C. reflexivity.
    - destruct (str_eqb_spec id' id) as [->|Hne].
      + rewrite !dgetl_dunion_same, D. reflexivity.
      + rewrite !dgetl_dunion_other by exact Hne. apply D.
    - rewrite !dgetl_dext. destruct (str_eqb id' id); [rewrite without_app, FL, HF; reflexivity|apply FL].
    - rewrite !dgetl_dext. destruct (str_eqb id' id); [rewrite unf_without_app, UN, HU; reflexivity|apply UN].
  Qed.

  Lemma merge_sim_bad id c a b :
    sim p a b -> fc_cs c = [] -> fc_deps c = [] -> without p (fc_fail c) = [] -> unf_without p (fc_unf c) = [] ->
    sim p (merge_ctx id c a) b.
  Proof.
    intros [F St C D U FL UN] H1 H2 H3 H4. constructor; simpl; auto; intros id'.
    - rewrite dgetl_dext, H1, app_nil_r. destruct (str_eqb id' id); apply C.
    - destruct (str_eqb_spec id' id) as [->|Hne].
      + rewrite dgetl_dunion_same, H2. apply D.
      + rewrite dgetl_dunion_other by exact Hne. apply D.
    - rewrite dgetl_dext. destruct (str_eqb id' id); [rewrite without_app, H3, app_nil_r|]; apply FL.
    - rewrite dgetl_dext. destruct (str_eqb id' id); [rewrite unf_without_app, H4, app_nil_r|]; apply UN.
  Qed.

  (** files phase + merge, with and without the bad file *)
  Lemma files_phase_sim cfg K res id : tries_present tb (cpipe K) = true ->
    forall files fs a b, sim p a b -> lookup fs p = c0 ->
    snd (mfiles cfg K res fs files) = snd (mfiles (cfg_without p cfg) K res fs (without p files)) /\
    lookup (snd (mfiles cfg K res fs files)) p = c0 /\
    exists a' b', process_results id (fst (mfiles cfg K res fs files)) a = Ok a' /\
                  process_results id (fst (mfiles (cfg_without p cfg) K res fs (without p files))) b = Ok b' /\
                  sim p a' b'.
  Proof.
    intros Ht. induction files as [|q rest IH]; intros fs a b Hs Hp.
    - simpl. split; [reflexivity|]. split; [exact Hp|]. eauto.
    - rewrite mfiles_cons. cbn [fst snd]. unfold without. cbn [filter]. fold (without p rest).
      destruct (str_eqb_spec q p) as [->|Hne]; cbn [negb].
      + (* the bad file itself: nothing written, a failure (or an empty context) merged *)
        pose proof (Hbad K (findings_for res p)) as Hf. rewrite <- Hp in Hf.
        destruct (fstep_fails cfg K res p (lookup fs p) Ht Hf) as [Hw Hc].
        rewrite pfile_snd, Hw, pfile_fst. cbn [process_results].
        destruct Hc as [[Hc _]|[r [Hc _]]]; rewrite Hc.
        * apply IH; [|exact Hp]. apply merge_sim_bad; auto.
        * apply IH; [|exact Hp]. apply merge_sim_bad; auto.
          -- simpl. unfold without. simpl. now rewrite str_eqb_refl.
          -- simpl. apply unf_without_failure.
      + (* any other file: the same step on the same file system *)
        rewrite mfiles_cons. cbn [fst snd].
        assert (E : pfile (cfg_without p cfg) K res fs q = pfile cfg K res fs q) by reflexivity.
        rewrite E. rewrite pfile_fst.
        destruct (fst (fstep cfg K res q (lookup fs q))) as [|c] eqn:Ec.
        * exfalso. revert Ec. apply fstep_no_crash; unfold tries_present in Ht; apply andb_true_iff in Ht; tauto.
        * cbn [process_results]. destruct (fstep_ctx_paths cfg K res q (lookup fs q) c Hne Ec) as [HF HU].
          apply IH; [now apply merge_sim_same|].
          rewrite pfile_frame; [exact Hp|]. intros ->. now apply Hne.
  Qed.

  Lemma scan_without K fs scope : lookup fs p = c0 -> semgrep_scan S K fs (without p scope) = semgrep_scan S K fs scope.
  Proof.
    intros Hp. unfold semgrep_scan. induction scope as [|q r IH]; [reflexivity|].
    unfold without. cbn [filter flat_map]. fold (without p r).
    destruct (str_eqb_spec q p) as [->|Hne]; cbn [negb].
    - unfold findings_at. rewrite Hp. rewrite (Hnosem K). simpl. exact IH.
    - cbn [flat_map]. now rewrite IH.
  Qed.

  Lemma without_nil_scope l r : (without p l <> [] \/ l = []) ->
    match without p l with [] => without p r | x => x end = without p (match l with [] => r | x => x end).
  Proof.
    intros [H | ->]; [|reflexivity]. destruct l as [|x l']; [reflexivity|].
    destruct (without p (x :: l')) eqn:E; [contradiction|reflexivity].
  Qed.

  Lemma prefilter_without cfg Ks fs : lookup fs p = c0 -> (without p (ff_paths cfg) <> [] \/ ff_paths cfg = []) ->
    prefilter_of S (cfg_without p cfg) Ks fs = prefilter_of S cfg Ks fs.
  Proof.
    intros Hp Hsc. unfold prefilter_of. cbn [ff_paths scan_all cfg_without].
    rewrite without_nil_scope by exact Hsc.
    apply fold_left_ext. intros acc K. rewrite scan_without by exact Hp. destruct (ff_paths cfg); reflexivity.
  Qed.

  (** no prefilter entry names the bad file *)
  Definition pre_ok (pre : dict str (list path)) : Prop := forall id, without p (dgetl id pre) = dgetl id pre.

  Lemma semgrep_scan_paths K fs scope : lookup fs p = c0 -> ~ In p (map fst (semgrep_scan S K fs scope)).
  Proof.
    intros Hp. unfold semgrep_scan. induction scope as [|q r IH]; simpl; [tauto|].
    rewrite map_app, in_app_iff. intros [H|H]; [|tauto].
    destruct (findings_at S K fs q) eqn:E; [destruct H|]. simpl in H. destruct H as [->|[]].
    unfold findings_at in E. rewrite Hp in E. rewrite (Hnosem K) in E. discriminate.
  Qed.

  Lemma without_notin l : ~ In p l -> without p l = l.
  Proof.
    induction l as [|q l IH]; intros H; [reflexivity|]. unfold without. cbn [filter]. fold (without p l).
    destruct (str_eqb_spec q p) as [->|Hne]; [exfalso; apply H; now left|]. cbn [negb]. f_equal. apply IH.
    intros Hi. apply H. now right.
  Qed.

  Lemma prefilter_pre_ok cfg Ks fs : lookup fs p = c0 -> pre_ok (prefilter_of S cfg Ks fs).
  Proof.
    intros Hp. unfold prefilter_of. set (scope := match ff_paths cfg with [] => scan_all cfg | x => x end).
    assert (H0 : pre_ok []) by (intros id; reflexivity). revert H0. generalize (@nil (str * list path)).
    induction Ks as [|K rest IH]; intros acc Hacc; [exact Hacc|]. cbn [fold_left]. apply IH.
    destruct (cdet K); try exact Hacc.
    destruct (map fst (semgrep_scan S K fs scope)) as [|x l] eqn:E; [exact Hacc|].
    intros id. unfold dgetl. rewrite dget_dset. destruct (str_eqb id (cid K)); [|apply Hacc].
    apply without_notin. rewrite <- E. now apply semgrep_scan_paths.
  Qed.

  Lemma detect_without cfg K pre fs : lookup fs p = c0 -> pre_ok pre ->
    detect S R (cfg_without p cfg) K pre fs = detect S R cfg K pre fs.
  Proof.
    intros Hp Hpre. unfold detect. destruct (cdet K); try reflexivity. f_equal. cbn [scan_all cfg_without].
    destruct (dgetl (cid K) pre) as [|x l] eqn:E; [now apply scan_without|reflexivity].
  Qed.

  Lemma files_without cfg K res : files_to_analyze fsel (cfg_without p cfg) K res = without p (files_to_analyze fsel cfg K res).
  Proof.
    unfold files_to_analyze. cbn [ff_paths all_files cfg_without]. unfold without.
    destruct (cbase K); [apply filter_filter_comm|]. destruct res; [apply filter_filter_comm|reflexivity].
  Qed.

  Lemma acodemod_sim cfg pre K a b :
    tries_present tb (cpipe K) = true -> pre_ok pre -> sim p a b -> lookup (s_fs a) p = c0 ->
    exists a' b', acodemod cfg pre K a = Ok a' /\ acodemod (cfg_without p cfg) pre K b = Ok b' /\ sim p a' b' /\
                  lookup (s_fs a') p = c0.
  Proof.
    intros Ht Hpre Hs Hp. pose proof Hs as [F St C D U FL UN]. unfold apply_codemod.
    destruct (negb (cavail K)); [eauto 6|]. destruct (_ && _ && _); [eauto 6|].
    rewrite <- F. rewrite detect_without by assumption.
    set (res := detect S R cfg K pre (s_fs a)). rewrite files_without.
    assert (Hgen : exists a' b',
               process_results (cid K) (fst (mfiles cfg K res (s_fs a) (files_to_analyze fsel cfg K res)))
                 (with_fs a (snd (mfiles cfg K res (s_fs a) (files_to_analyze fsel cfg K res)))) = Ok a' /\
               process_results (cid K) (fst (mfiles (cfg_without p cfg) K res (s_fs a) (without p (files_to_analyze fsel cfg K res))))
                 (with_fs b (snd (mfiles (cfg_without p cfg) K res (s_fs a) (without p (files_to_analyze fsel cfg K res))))) = Ok b' /\
               sim p a' b' /\ lookup (s_fs a') p = c0).
    { set (files := files_to_analyze fsel cfg K res).
      destruct (files_phase_sim cfg K res (cid K) Ht files (s_fs a)
                  (with_fs a (snd (mfiles cfg K res (s_fs a) files)))
                  (with_fs b (snd (mfiles (cfg_without p cfg) K res (s_fs a) (without p files))))) as [E1 [E2 [a' [b' [Ha [Hb Hs']]]]]].
      - destruct (files_phase_sim cfg K res (cid K) Ht files (s_fs a) a b Hs Hp) as [E1 _].
        constructor; simpl; auto.
      - exact Hp.
      - exists a', b'. split; [exact Ha|]. split; [exact Hb|]. split; [exact Hs'|].
        pose proof (presults_fs _ _ _ _ (or_introl Ha)) as [Fa _]. rewrite Fa. simpl. exact E2. }
    destruct Hgen as [a' [b' [Ha [Hb [Hs' Hp']]]]].
    destruct res as [[|x r]|] eqn:Er; [eauto 6| |].
    - destruct (files_to_analyze fsel cfg K (Some (x :: r))) as [|f fl] eqn:Ef.
      + simpl. eauto 6.
      + destruct (without p (f :: fl)) as [|g gl] eqn:Eg.
        * (* only the bad file was selected: (b) does nothing, (a) records the failure *)
          simpl in Hb. inversion Hb; subst b'. exists a', b. split; [exact Ha|]. split; [reflexivity|]. split; [|exact Hp'].
          destruct Hs'. destruct Hs. constructor; auto; simpl in *; congruence.
        * exists a', b'. auto.
    - destruct (files_to_analyze fsel cfg K None) as [|f fl] eqn:Ef.
      + simpl. eauto 6.
      + destruct (without p (f :: fl)) as [|g gl] eqn:Eg.
        * simpl in Hb. inversion Hb; subst b'. exists a', b. split; [exact Ha|]. split; [reflexivity|]. split; [|exact Hp'].
          destruct Hs'. destruct Hs. constructor; auto; simpl in *; congruence.
        * exists a', b'. auto.
  Qed.

  Lemma tstores_paths cfg ds : forall stores fs, map st_path (fst (fst (try_stores tb W cfg ds fs stores))) = map st_path stores.
  Proof.
    induction stores as [|st rest IH]; intros fs; simpl; [reflexivity|].
    destruct (attempt W ds fs st) as [[[b' d] chs]|]; simpl; [reflexivity|]. now rewrite IH.
  Qed.

  Lemma tstores_frame cfg ds : forall stores fs q, ~ In q (map st_path stores) ->
    lookup (snd (fst (try_stores tb W cfg ds fs stores))) q = lookup fs q.
  Proof.
    induction stores as [|st rest IH]; intros fs q Hn; simpl; [reflexivity|].
    destruct (attempt W ds fs st) as [[[b' d] chs]|]; simpl.
    - destruct (_ && _); [reflexivity|]. apply lookup_fwrite_other. intros ->. apply Hn. now left.
    - apply IH. intros H. apply Hn. now right.
  Qed.

  Lemma tstores_cfg_dry cfg cfg' ds : dry_run cfg' = dry_run cfg ->
    forall stores fs, try_stores tb W cfg' ds fs stores = try_stores tb W cfg ds fs stores.
  Proof.
    intros Hd. induction stores as [|st rest IH]; intros fs; simpl; [reflexivity|].
    rewrite Hd. destruct (attempt W ds fs st) as [[[b' d] chs]|]; [reflexivity|]. now rewrite IH.
  Qed.

  Lemma pdeps_sim cfg cfg' id a b :
    dry_run cfg' = dry_run cfg -> sim p a b -> lookup (s_fs a) p = c0 -> ~ In p (map st_path (s_stores a)) ->
    sim p (pdeps cfg id a) (pdeps cfg' id b) /\ lookup (s_fs (pdeps cfg id a)) p = c0 /\
    map st_path (s_stores (pdeps cfg id a)) = map st_path (s_stores a).
  Proof.
    intros Hd [F St C D U FL UN] Hp Hn. unfold process_dependencies. rewrite <- D, <- St, <- F.
    destruct (dgetl id (s_deps a)) as [|d0 ds0]; [split; [constructor; auto|auto]|].
    destruct (s_stores a) eqn:Es.
    - split; [|auto]. constructor; simpl; auto. intros id'. rewrite !dget_dset. now rewrite U.
    - rewrite <- Es in *.
      assert (ET : try_stores tb W cfg' (d0 :: ds0) (s_fs a) (s_stores a) = try_stores tb W cfg (d0 :: ds0) (s_fs a) (s_stores a)).
      { now apply tstores_cfg_dry. }
      rewrite ET.
      destruct (snd (try_stores tb W cfg (d0 :: ds0) (s_fs a) (s_stores a))) as [c|]; simpl.
      + split; [|split; [rewrite tstores_frame by exact Hn; exact Hp | apply tstores_paths]].
        constructor; simpl; auto; intros id'.
        * rewrite !dgetl_dext, C. reflexivity.
        * rewrite !dget_dset. now rewrite U.
      + split; [|split; [rewrite tstores_frame by exact Hn; exact Hp | apply tstores_paths]].
        constructor; simpl; auto.
  Qed.

  Lemma acodemods_sim cfg pre Ks : forall a b,
    (forall K, In K Ks -> tries_present tb (cpipe K) = true) -> pre_ok pre -> sim p a b ->
    lookup (s_fs a) p = c0 -> ~ In p (map st_path (s_stores a)) ->
    exists a' b', acodemods cfg pre Ks a = Ok a' /\ acodemods (cfg_without p cfg) pre Ks b = Ok b' /\ sim p a' b' /\
                  lookup (s_fs a') p = c0.
  Proof.
    induction Ks as [|K rest IH]; intros a b Ht Hpre Hs Hp Hn; simpl; [eauto 6|].
    destruct (acodemod_sim cfg pre K a b (Ht K (or_introl eq_refl)) Hpre Hs Hp) as [a1 [b1 [Ea [Eb [Hs1 Hp1]]]]].
    rewrite Ea, Eb.
    pose proof (acodemod_frame tb tree parse code T S R diff fsel _ _ _ _ _ (or_introl Ea)) as [St1 _].
    destruct (pdeps_sim cfg (cfg_without p cfg) (cid K) a1 b1 eq_refl Hs1 Hp1) as [Hs2 [Hp2 Hst2]]; [now rewrite St1|].
    apply IH; auto.
    - intros K' Hin. apply Ht. now right.
    - rewrite Hst2, St1. exact Hn.
  Qed.

  Lemma run_isolation cfg Ks fs stores :
    (forall K, In K Ks -> tries_present tb (cpipe K) = true) ->
    lookup fs p = c0 -> ~ In p (map st_path stores) ->
    (without p (ff_paths cfg) <> [] \/ ff_paths cfg = []) -> without p (all_files cfg) <> [] ->
    exists a b, mrun cfg Ks fs stores = Ok a /\ mrun (cfg_without p cfg) Ks fs stores = Ok b /\ sim p a b /\
                lookup (s_fs a) p = lookup fs p.
  Proof.
    intros Ht Hp Hn Hsc Hall. unfold run. cbn [all_files cfg_without].
    destruct (without p (all_files cfg)) as [|g gl] eqn:Eg; [contradiction|].
    destruct (all_files cfg) as [|f fl] eqn:Ef; [discriminate|].
    rewrite prefilter_without by assumption.
    destruct (acodemods_sim cfg (prefilter_of S cfg Ks fs) Ks (init_state fs stores) (init_state fs stores)) as [a [b [Ea [Eb [Hs Hpa]]]]];
      auto.
    - now apply prefilter_pre_ok.
    - constructor; auto.
    - exists a, b. split; [exact Ea|]. split; [exact Eb|]. split; [exact Hs|]. now rewrite Hpa.
  Qed.
End C10.

(** ---- the failing file is listed: process_results keeps every yielded failure ---- *)
Lemma presults_fail_mono id outs : forall s s' k x,
  process_results id outs s = Ok s' -> In x (dgetl k (s_fail s)) -> In x (dgetl k (s_fail s')).
Proof.
  induction outs as [|[|c] r IH]; intros s s' k x H Hin; simpl in H.
  - inversion H; subst; auto.
  - discriminate.
  - eapply IH; [exact H|]. simpl. now apply In_dgetl_dext.
Qed.
Lemma presults_fail_in id outs : forall s s' cx x,
  process_results id outs s = Ok s' -> In (FCtx cx) outs -> In x (fc_fail cx) -> In x (dgetl id (s_fail s')).
Proof.
  induction outs as [|[|c] r IH]; intros s s' cx x H Hin Hx; simpl in H.
  - destruct Hin.
  - discriminate.
  - destruct Hin as [Heq|Hin].
    + inversion Heq; subst. eapply presults_fail_mono; [exact H|]. simpl.
      rewrite dgetl_dext_same. apply in_or_app. now right.
    + eapply IH; eauto.
Qed.
Lemma presults_unf_mono id outs : forall s s' k x,
  process_results id outs s = Ok s' -> In x (dgetl k (s_unf s)) -> In x (dgetl k (s_unf s')).
Proof.
  induction outs as [|[|c] r IH]; intros s s' k x H Hin; simpl in H.
  - inversion H; subst; auto.
  - discriminate.
  - eapply IH; [exact H|]. simpl. now apply In_dgetl_dext.
Qed.
Lemma presults_unf_in id outs : forall s s' cx x,
  process_results id outs s = Ok s' -> In (FCtx cx) outs -> In x (fc_unf cx) -> In x (dgetl id (s_unf s')).
Proof.
  induction outs as [|[|c] r IH]; intros s s' cx x H Hin Hx; simpl in H.
  - destruct Hin.
  - discriminate.
  - destruct Hin as [Heq|Hin].
    + inversion Heq; subst. eapply presults_unf_mono; [exact H|]. simpl.
      rewrite dgetl_dext_same. apply in_or_app. now right.
    + eapply IH; eauto.
Qed.

(** ---- witnesses for the negative branch: a pipeline without one of the try blocks lets the exception abort the run ---- *)
Definition w_crash_fs (bad : N) : fsys := [([97%N], [bad]); ([98%N], [1%N])].
Lemma toy_crash_noparse tb k : has_guard TryParse (guards_of tb k) = false ->
  exists s, toy_run tb (toy_cfg false [[97%N]; [98%N]]) [toy_codemod 1 k DNone; toy_codemod 2 k DNone] (w_crash_fs 255) [] = Aborted s.
Proof.
  intros H. unfold toy_run, run, toy_cfg, toy_codemod, w_crash_fs.
  destruct k; cbn -[has_guard] in *; rewrite H; eexists; reflexivity.
Qed.
Lemma toy_crash_notransform tb k : has_guard TryTransform (guards_of tb k) = false ->
  exists s, toy_run tb (toy_cfg false [[97%N]; [98%N]]) [toy_codemod 1 k DNone; toy_codemod 2 k DNone] (w_crash_fs 7) [] = Aborted s.
Proof.
  intros H. unfold toy_run, run, toy_cfg, toy_codemod, w_crash_fs.
  destruct k; cbn -[has_guard] in *; rewrite H; eexists; reflexivity.
Qed.
