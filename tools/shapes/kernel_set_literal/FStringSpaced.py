import libcst as cst

from codemodder.codemods.utils_mixin import NameResolutionMixin
from core_codemods.api import Metadata, ReviewGuidance, SimpleCodemod


class UseSetLiteral(SimpleCodemod, NameResolutionMixin):
    metadata = Metadata(
        name="use-set-literal",
        summary="Use Set Literals Instead of Sets from Lists",
        review_guidance=ReviewGuidance.MERGE_WITHOUT_REVIEW,
        references=[],
    )
    change_description = "Replace sets from lists with set literals"

    def leave_Call(self, original_node: cst.Call, updated_node: cst.Call):
        if not self.filter_by_path_includes_or_excludes(
            self.node_position(original_node)
        ):
            return updated_node

        match original_node.func:
            case cst.Name("set"):
                if self.is_builtin_function(original_node):
                    match original_node.args:
                        # `set(*[...])` passes the elements, not the list
                        case [cst.Arg(value=cst.List(elements=elements), star="")]:
                            self.report_change(original_node)

                            # Can't use set literal for empty set
                            if len(elements) == 0:
                                return updated_node.with_changes(args=[])

                            return cst.Set(elements=elements)

        return updated_node

    def leave_FormattedStringExpression(
        self,
        original_node: cst.FormattedStringExpression,
        updated_node: cst.FormattedStringExpression,
    ):
        # `f"{{1, 2}}"` is an escaped brace, not a set: when the rewritten
        # expression now starts with `{`, keep it apart from the field's brace
        if (
            not updated_node.expression.deep_equals(original_node.expression)
            and self.code(updated_node.expression).startswith("{")
            and not self.code(original_node.expression).startswith("{")
            and updated_node.whitespace_before_expression.empty
        ):
            return updated_node.with_changes(
                whitespace_before_expression=cst.SimpleWhitespace(" ")
            )
        return updated_node
