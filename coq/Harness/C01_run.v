From CM Require Import Harness.RunBase Model.StrLit.

(** pieces, text of the first argument produced by the real codemod, did CPython accept the rewritten file, harness's class decision *)
Definition strlit_case := (list piece * str * bool * bool)%type.

Definition lexes_bool (s : str) : bool :=
  match s with
  | c :: r => N.eqb c DQ && match lex_dq r with Some (_, []) => true | _ => false end
  | [] => false
  end.

Definition strlit_model_ok (c : strlit_case) : bool := let '(ps, obs, _, _) := c in str_eqb (requote ps) obs.
(** the lexer model agrees with CPython on the produced argument: what the model reads as ONE literal, CPython accepts.
    (The converse is not demanded: text that is not one literal can still be valid Python — two adjacent literals are
    an implicit concatenation — so an unsafe piece does not always produce a syntax error.) *)
Definition strlit_lexer_ok (c : strlit_case) : bool := let '(ps, obs, py_ok, _) := c in implb (lexes_bool obs) py_ok.
(** the harness's finding-class predicate is the complement of the theorem's guard *)
Definition strlit_class_ok (c : strlit_case) : bool := let '(ps, _, _, in_class) := c in Bool.eqb (negb (forallb piece_safe ps)) in_class.
(** spec: outside the finding class the produced argument is one literal *)
Definition strlit_spec_ok (c : strlit_case) : bool := let '(ps, obs, py_ok, _) := c in if forallb piece_safe ps then py_ok else true.
