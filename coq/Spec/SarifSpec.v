(** Reference extraction for SARIF: every location of every result of every run (of that tool, for CodeQL). *)
From CM Require Import Model.Sarif.

Definition opt_list {A} (o : option (list A)) : list A := match o with Some l => l | None => [] end.
Definition arr_of (o : option json) : list json := match o with Some (JArr l) => l | _ => [] end.

Definition rule_of (run result : json) : str := match extract_rule_id result run with Some r => r | None => [] end.

Definition semgrep_spec (doc : json) : list finding :=
  flat_map (fun run =>
    flat_map (fun result =>
      flat_map (fun loc => match semgrep_location (rule_of run result) loc with Some f => [f] | None => [] end)
               (arr_of (jget s_locations result)))
      (arr_of (jget s_results run)))
    (arr_of (jget s_runs doc)).

Definition is_codeql (run : json) : bool := match codeql_detect run with Some b => b | None => false end.

Definition codeql_spec (doc : json) : list finding :=
  flat_map (fun run =>
    if is_codeql run then
      flat_map (fun result =>
        flat_map (fun loc => match codeql_location (rule_of run result) loc with Some f => [f] | None => [] end)
                 (arr_of (jget s_locations result)))
        (arr_of (jget s_results run))
    else [])
    (arr_of (jget s_runs doc)).

Definition dd_spec (doc : json) : list finding :=
  flat_map (fun e => match dd_entry e with Some f => [f] | None => [] end) (arr_of (jget s_results doc)).
