def load_registered_codemods(ep_filter=None):
    registry = CodemodRegistry()
    for entry_point in set(entry_points().select(group="codemods")):
        if ep_filter and not ep_filter(entry_point):
            continue
        collection = entry_point.load()
        registry.add_codemod_collection(collection)
    return registry
