# Fragments of the scheduling model (C11).  exec'd inside tools/translate.py (its globals are available here).
#
#   pool_size_arg          base_codemod.BaseCodemod._apply: argument list of ThreadPoolExecutor(...)
#   sched_collect          base_codemod.BaseCodemod._apply: executor.map + process_results after the `with` block
#   sched_task_local       _process_file, the Libcst/Regex/XML pipelines' apply, LibcstResultTransformer.transform/__init__,
#                          FileContext: one fresh per-file object each, no store / mutating call on shared objects
#   sched_results_in_order context.process_results / add_* / files_to_analyze / find_and_fix_paths
#   entry_point_iteration  registry.load_registered_codemods: what the loop iterates over
#   sched_registry_follows registry.match_codemods / add_codemod_collection: selection follows the registry order
#   sched_paths_order      code_directory.match_files: sorted(...) on the way out
#   max_workers_default    cli.py --max-workers (type=int, default) and its way to context.max_workers

TABLE_IMPORTS.append("From CM Require Import Base.Types_Sched.")

_SCHED_PROPS = ["C11"]


def _sched_is_name(node, name):
    return isinstance(node, ast.Name) and node.id == name


def _sched_is_attr(node, base, attr):
    return isinstance(node, ast.Attribute) and node.attr == attr and _sched_is_name(node.value, base)


def _sched_apply_parts(tree):
    """(_apply def, the single `with ThreadPoolExecutor(...) as <name>` statement, its index in the body, call, name)"""
    fn = find_def(tree, "BaseCodemod._apply")
    if fn is None:
        raise Unrecognised("BaseCodemod._apply not found")
    withs = []
    for idx, st in enumerate(fn.body):
        if isinstance(st, ast.With):
            for it in st.items:
                c = it.context_expr
                if isinstance(c, ast.Call) and (_sched_is_name(c.func, "ThreadPoolExecutor") or
                                                (isinstance(c.func, ast.Attribute) and c.func.attr == "ThreadPoolExecutor")):
                    withs.append((st, idx, c, it.optional_vars))
    pools = [n for n in ast.walk(fn) if isinstance(n, ast.Call) and
             (_sched_is_name(n.func, "ThreadPoolExecutor") or (isinstance(n.func, ast.Attribute) and n.func.attr == "ThreadPoolExecutor"))]
    if len(withs) != 1 or len(pools) != 1:
        raise Unrecognised("expected exactly one top-level `with ThreadPoolExecutor(...) as executor:` in _apply, found %d with / %d calls"
                           % (len(withs), len(pools)))
    st, idx, call, var = withs[0]
    if len(st.items) != 1 or not isinstance(var, ast.Name):
        raise Unrecognised("the pool is not bound by a single `as <name>`")
    for n in ast.walk(fn):
        if isinstance(n, ast.Name) and n.id in ("ProcessPoolExecutor", "Thread", "multiprocessing", "asyncio"):
            raise Unrecognised(f"_apply mentions {n.id}")
    return fn, st, idx, call, var.id


def _sched_is_ctx_max_workers(node):
    if _sched_is_attr(node, "context", "max_workers"):
        return True
    if isinstance(node, ast.Call) and _sched_is_name(node.func, "int") and len(node.args) == 1 and not node.keywords:
        return _sched_is_attr(node.args[0], "context", "max_workers")
    return False


def _sched_pool_size_arg(tree, repo):
    fn, st, idx, call, var = _sched_apply_parts(tree)
    if not call.args and not call.keywords:
        return "None"
    if len(call.args) + len(call.keywords) == 1:
        v = call.args[0] if call.args else call.keywords[0].value
        if (call.args or call.keywords[0].arg == "max_workers") and _sched_is_ctx_max_workers(v):
            return "(Some MaxWorkersArg)"
    raise Unrecognised("ThreadPoolExecutor(...) arguments are neither empty nor max_workers=[int(]context.max_workers[)]: "
                       + ast.unparse(call))


def _sched_collect(tree, repo):
    fn, st, idx, call, var = _sched_apply_parts(tree)
    names = {n.id for n in ast.walk(fn) if isinstance(n, ast.Name)} | {n.attr for n in ast.walk(fn) if isinstance(n, ast.Attribute)}
    # process_file = functools.partial(self._process_file, context=context, results=results, rules=rules)
    partial_ok = False
    for s in fn.body[:idx]:
        if isinstance(s, ast.Assign) and len(s.targets) == 1 and _sched_is_name(s.targets[0], "process_file") \
                and isinstance(s.value, ast.Call) and ast.unparse(s.value.func) == "functools.partial" \
                and len(s.value.args) == 1 and _sched_is_attr(s.value.args[0], "self", "_process_file") \
                and sorted(k.arg for k in s.value.keywords) == ["context", "results", "rules"] \
                and all(_sched_is_name(k.value, k.arg) for k in s.value.keywords):
            partial_ok = True
    if not partial_ok:
        raise Unrecognised("process_file is not functools.partial(self._process_file, context=, results=, rules=)")
    # the merge is the LAST statement of _apply, after (outside) the with block
    last = fn.body[-1]
    if idx != len(fn.body) - 2 or not (isinstance(last, ast.Expr) and isinstance(last.value, ast.Call)
                                       and _sched_is_attr(last.value.func, "context", "process_results")
                                       and len(last.value.args) == 2 and not last.value.keywords
                                       and _sched_is_attr(last.value.args[0], "self", "id")):
        raise Unrecognised("context.process_results(self.id, <results>) is not the statement that follows the `with` block")
    res_name = last.value.args[1]
    if not isinstance(res_name, ast.Name):
        raise Unrecognised("second argument of process_results is not a local name")
    body = [s for s in st.body if not _is_log_call(s)]
    if "as_completed" in names:
        # results gathered in completion order
        return "CompletionOrder"
    # contexts = executor.map(process_file, files_to_analyze) [; executor.shutdown(wait=True)]
    if not body or not (isinstance(body[0], ast.Assign) and len(body[0].targets) == 1
                        and _sched_is_name(body[0].targets[0], res_name.id)
                        and isinstance(body[0].value, ast.Call) and _sched_is_attr(body[0].value.func, var, "map")
                        and len(body[0].value.args) == 2 and not body[0].value.keywords
                        and _sched_is_name(body[0].value.args[0], "process_file")
                        and _sched_is_name(body[0].value.args[1], "files_to_analyze")):
        raise Unrecognised("first statement of the `with` block is not `%s = %s.map(process_file, files_to_analyze)`" % (res_name.id, var))
    for s in body[1:]:
        if not (isinstance(s, ast.Expr) and isinstance(s.value, ast.Call) and _sched_is_attr(s.value.func, var, "shutdown")):
            raise Unrecognised("unexpected statement in the `with` block: " + ast.unparse(s)[:80])
    # files_to_analyze comes from self.get_files_to_analyze(context, results)
    ok = any(isinstance(n, ast.NamedExpr) and _sched_is_name(n.target, "files_to_analyze") and isinstance(n.value, ast.Call)
             and _sched_is_attr(n.value.func, "self", "get_files_to_analyze") for n in ast.walk(fn))
    if not ok:
        raise Unrecognised("files_to_analyze is not self.get_files_to_analyze(context, results)")
    return "MapInputOrder"


def _sched_task_local(tree, repo):
    fn = find_def(tree, "BaseCodemod._process_file")
    if fn is None:
        raise Unrecognised("BaseCodemod._process_file not found")
    ctx_calls = [n for n in ast.walk(fn) if isinstance(n, ast.Call) and _sched_is_name(n.func, "FileContext")]
    if len(ctx_calls) != 1:
        raise Unrecognised("expected exactly one FileContext(...) per call of _process_file")
    for n in ast.walk(fn):
        if isinstance(n, (ast.Global, ast.Nonlocal)):
            raise Unrecognised("_process_file declares global/nonlocal names")
        targets = []
        if isinstance(n, ast.Assign):
            targets = n.targets
        elif isinstance(n, (ast.AugAssign, ast.AnnAssign)):
            targets = [n.target]
        for t in targets:
            for sub in ast.walk(t):
                if isinstance(sub, (ast.Attribute, ast.Subscript)):
                    base = sub
                    while isinstance(base, (ast.Attribute, ast.Subscript)):
                        base = base.value
                    if isinstance(base, ast.Name) and base.id in ("self", "context", "results", "rules"):
                        raise Unrecognised("_process_file stores into a shared object: " + ast.unparse(t))
        if isinstance(n, ast.Call) and isinstance(n.func, ast.Attribute):
            base = n.func.value
            if _sched_is_name(base, "context") or _sched_is_attr(base, "self", "__dict__"):
                raise Unrecognised("_process_file calls a method of the shared run context: " + ast.unparse(n)[:80])
            if _sched_is_name(base, "rules") or (_sched_is_name(base, "results") and n.func.attr not in ("results_for_rule_and_file",)):
                raise Unrecognised("_process_file calls a method of a shared argument: " + ast.unparse(n)[:80])
    rets = [n for n in ast.walk(fn) if isinstance(n, ast.Return)]
    if not rets or not all(_sched_is_name(r.value, "file_context") for r in rets):
        raise Unrecognised("_process_file does not return its own file_context on every path")
    # what _process_file calls with the shared objects in hand: the pipelines' apply methods, the per-file transformer
    # construction, and FileContext itself
    for rel, quals in _SCHED_LOCAL_SCAN:
        try:
            mod = ast.parse((repo / rel).read_text(encoding="utf-8"))
        except (OSError, SyntaxError) as e:
            raise Unrecognised(f"cannot read {rel}: {e}")
        for q in quals:
            d = find_def(mod, q)
            if d is None:
                raise Unrecognised(f"{q} not found in {rel}")
            _sched_scan_shared(d, q)
    _sched_scan_file_context(repo)
    return "TaskLocal"


_SCHED_LOCAL_SCAN = [
    ("src/codemodder/codemods/libcst_transformer.py",
     ["LibcstTransformerPipeline.apply", "LibcstResultTransformer.transform", "LibcstResultTransformer.__init__"]),
    ("src/codemodder/codemods/regex_transformer.py",
     ["RegexTransformerPipeline.apply", "RegexTransformerPipeline._apply", "RegexTransformerPipeline._apply_regex",
      "SastRegexTransformerPipeline._apply"]),
    ("src/codemodder/codemods/xml_transformer.py", ["XMLTransformerPipeline.apply"]),
]
_SCHED_MUTATORS = {"append", "extend", "add", "update", "insert", "pop", "popitem", "remove", "discard", "clear", "setdefault",
                   "sort", "reverse", "__setitem__", "__delitem__", "__setattr__", "add_changesets", "add_failures",
                   "add_dependencies", "add_unfixed_findings", "process_results", "process_dependencies", "aggregate",
                   "add_description", "write", "seek", "truncate"}


def _sched_root(node):
    while isinstance(node, (ast.Attribute, ast.Subscript, ast.Call)):
        node = node.func if isinstance(node, ast.Call) else node.value
    return node.id if isinstance(node, ast.Name) else None


def _sched_scan_shared(fn, qual):
    """No per-file state on objects the worker threads share.  In a pipeline's apply / a classmethod, `self`/`cls`
    (the pipeline, shared by every file of the codemod) and `context` (the run context) are shared; `file_context`,
    the transformer instance built inside, and locals are the task's own.  __init__ of the per-file transformer
    stores on its own fresh `self`, which is fine; there only `context`/class attributes are shared."""
    own_self = qual.endswith(".__init__")
    shared = {"context", "cls"} | (set() if own_self else {"self"})
    params = {a.arg for a in fn.args.args}
    if qual.endswith(".apply") and not {"self", "context", "file_context"} <= params:
        raise Unrecognised(f"{qual} does not take (self, context, file_context, ...)")
    cls_name = qual.split(".")[0]
    for n in ast.walk(fn):
        if isinstance(n, (ast.Global, ast.Nonlocal)):
            raise Unrecognised(f"{qual} declares global/nonlocal names")
        targets = []
        if isinstance(n, ast.Assign):
            targets = n.targets
        elif isinstance(n, (ast.AugAssign, ast.AnnAssign)):
            targets = [n.target]
        elif isinstance(n, ast.Delete):
            targets = n.targets
        elif isinstance(n, ast.NamedExpr):
            targets = [n.target]
        for t in targets:
            for sub in ast.walk(t):
                if isinstance(sub, (ast.Attribute, ast.Subscript)) and (_sched_root(sub) in shared or _sched_root(sub) == cls_name):
                    raise Unrecognised(f"{qual} stores into a shared object: " + ast.unparse(t)[:80])
        if isinstance(n, ast.Call) and isinstance(n.func, ast.Attribute):
            root = _sched_root(n.func.value)
            if root == "context":
                raise Unrecognised(f"{qual} calls a method of the shared run context: " + ast.unparse(n)[:80])
            if (root in shared or root == cls_name) and n.func.attr in _SCHED_MUTATORS:
                raise Unrecognised(f"{qual} calls a mutating method on a shared object: " + ast.unparse(n)[:80])
        if isinstance(n, ast.Call) and _sched_is_name(n.func, "setattr") and n.args and _sched_root(n.args[0]) in shared:
            raise Unrecognised(f"{qual} uses setattr on a shared object")


def _sched_scan_file_context(repo):
    """FileContext: a dataclass whose mutable fields all come from default_factory (nothing shared between instances),
    whose methods store on `self` only."""
    rel = "src/codemodder/file_context.py"
    try:
        mod = ast.parse((repo / rel).read_text(encoding="utf-8"))
    except (OSError, SyntaxError) as e:
        raise Unrecognised(f"cannot read {rel}: {e}")
    cls = find_def(mod, "FileContext")
    if cls is None or not any((_sched_is_name(d, "dataclass") or (isinstance(d, ast.Call) and _sched_is_name(d.func, "dataclass")))
                              for d in cls.decorator_list):
        raise Unrecognised("FileContext is not a @dataclass")
    for st in cls.body:
        if isinstance(st, ast.Assign):
            raise Unrecognised("FileContext has a class-level attribute shared by its instances: " + ast.unparse(st)[:60])
        if isinstance(st, ast.AnnAssign) and st.value is not None:
            v = st.value
            ok = isinstance(v, ast.Constant) or (isinstance(v, ast.Call) and _sched_is_name(v.func, "field")
                                                 and not v.args and [k.arg for k in v.keywords] == ["default_factory"]
                                                 and isinstance(v.keywords[0].value, ast.Name))
            if not ok:
                raise Unrecognised("FileContext field default is neither a constant nor field(default_factory=<type>): "
                                   + ast.unparse(st)[:80])
        if isinstance(st, ast.FunctionDef):
            for n in ast.walk(st):
                if isinstance(n, (ast.Global, ast.Nonlocal)):
                    raise Unrecognised(f"FileContext.{st.name} declares global/nonlocal names")
                targets = n.targets if isinstance(n, ast.Assign) else [n.target] if isinstance(n, (ast.AugAssign, ast.AnnAssign)) else []
                for t in targets:
                    for sub in ast.walk(t):
                        if isinstance(sub, (ast.Attribute, ast.Subscript)) and _sched_root(sub) != "self":
                            raise Unrecognised(f"FileContext.{st.name} stores outside self: " + ast.unparse(t)[:60])
                if isinstance(n, ast.Call) and isinstance(n.func, ast.Attribute) and n.func.attr in _SCHED_MUTATORS \
                        and _sched_root(n.func.value) not in ("self", None) and _sched_root(n.func.value) not in {a.arg for a in st.args.args}:
                    raise Unrecognised(f"FileContext.{st.name} mutates a non-local object: " + ast.unparse(n)[:60])


def _sched_positive_int(tree, node):
    """`positive_int`: number = int(value); if number <= 0: raise argparse.ArgumentTypeError(...); return number"""
    if not _sched_is_name(node, "positive_int"):
        return False
    fn = find_def(tree, "positive_int")
    if fn is None:
        return False
    want = ast.parse("def positive_int(value):\n    number = int(value)\n    if number <= 0:\n        raise argparse.ArgumentTypeError(f\"invalid positive int value: {value!r}\")\n    return number\n").body[0]
    return norm_dump(fn) == norm_dump(want)


def _sched_max_workers_default(tree, repo):
    """cli.py: add_argument("--max-workers", type=int, default=<n>); codemodder.run passes argv.max_workers to the context;
    the context stores it unchanged."""
    default = None
    for n in ast.walk(tree):
        if isinstance(n, ast.Call) and isinstance(n.func, ast.Attribute) and n.func.attr == "add_argument" and n.args \
                and isinstance(n.args[0], ast.Constant) and n.args[0].value == "--max-workers":
            kw = {k.arg: k.value for k in n.keywords}
            # type=int, or the validating wrapper positive_int (int(value), rejecting value <= 0 as an argument error)
            if len(n.args) != 1 or not (_sched_is_name(kw.get("type"), "int") or _sched_positive_int(tree, kw.get("type"))) \
                    or not isinstance(kw.get("default"), ast.Constant) \
                    or not isinstance(kw["default"].value, int) or set(kw) - {"type", "default", "help"}:
                raise Unrecognised("--max-workers is not declared with type=int and an integer default")
            if default is not None:
                raise Unrecognised("--max-workers declared twice")
            default = kw["default"].value
    if default is None:
        raise Unrecognised("--max-workers option not found in cli.py")
    main = ast.parse((repo / "src/codemodder/codemodder.py").read_text())
    ok = False
    for n in ast.walk(main):
        if isinstance(n, ast.Call) and _sched_is_name(n.func, "CodemodExecutionContext"):
            if len(n.args) == 10 and _sched_is_attr(n.args[9], "argv", "max_workers") and not n.keywords:
                ok = True
    if not ok:
        raise Unrecognised("codemodder.run does not pass argv.max_workers as the 10th argument of CodemodExecutionContext")
    ctx = ast.parse((repo / "src/codemodder/context.py").read_text())
    init = find_def(ctx, "CodemodExecutionContext.__init__")
    names = [a.arg for a in init.args.args] if init else []
    if len(names) != 11 or names[10] != "max_workers":
        raise Unrecognised("CodemodExecutionContext.__init__'s 10th parameter is not max_workers")
    stores = [s for s in ast.walk(init) if isinstance(s, ast.Assign) and any(_sched_is_attr(t, "self", "max_workers") for t in s.targets)]
    if len(stores) != 1 or not _sched_is_name(stores[0].value, "max_workers"):
        raise Unrecognised("context.max_workers is not the constructor argument")
    others = [s for s in ast.walk(ctx) if isinstance(s, (ast.Assign, ast.AugAssign)) and s not in stores
              and any(isinstance(t, ast.Attribute) and t.attr == "max_workers" for t in (s.targets if isinstance(s, ast.Assign) else [s.target]))]
    if others:
        raise Unrecognised("context.max_workers is assigned elsewhere in context.py")
    return default


custom("sched_pool_size_arg", "src/codemodder/codemods/base_codemod.py", _SCHED_PROPS,
       "pool_size_arg", "option pool_arg", "(Some MaxWorkersArg)", _sched_pool_size_arg,
       doc="BaseCodemod._apply: arguments of ThreadPoolExecutor(...); None = no argument")
custom("sched_collect", "src/codemodder/codemods/base_codemod.py", _SCHED_PROPS,
       "sched_collect", "collect_form", "MapInputOrder", _sched_collect,
       doc="BaseCodemod._apply: contexts = executor.map(process_file, files_to_analyze); process_results after the with block")
custom("sched_task_local", "src/codemodder/codemods/base_codemod.py", _SCHED_PROPS,
       "sched_task_local", "locality_form", "TaskLocal", _sched_task_local,
       doc="_process_file, Libcst/Regex/XML pipeline apply, LibcstResultTransformer.transform/__init__, FileContext: per-file state "
           "is task-local (no store / mutating call on self, cls, context, results)")
custom("sched_max_workers_default", "src/codemodder/cli.py", _SCHED_PROPS,
       "max_workers_default", "N", 1, _sched_max_workers_default, printer=lambda v: f"{int(v)}%N",
       doc="--max-workers (type=int, default) -> argv.max_workers -> context.max_workers")
shape("sched_process_results", "src/codemodder/context.py", _SCHED_PROPS,
      "sched_results_in_order", "bool", "true",
      ["CodemodExecutionContext.process_results", "CodemodExecutionContext.add_changesets",
       "CodemodExecutionContext.add_failures", "CodemodExecutionContext.add_dependencies",
       "CodemodExecutionContext.add_unfixed_findings", "CodemodExecutionContext.files_to_analyze",
       "CodemodExecutionContext.find_and_fix_paths"],
      doc="process_results: one pass over the iterator, add_* extend per-codemod lists; cached path lists")
shape("sched_registry_load", "src/codemodder/registry.py", _SCHED_PROPS,
      "entry_point_iteration", "iter_form", "Deterministic", ["load_registered_codemods"],
      doc="load_registered_codemods: for entry_point in set(...) / dict.fromkeys(...)")
shape("sched_registry_match", "src/codemodder/registry.py", _SCHED_PROPS,
      "sched_registry_follows", "bool", "true",
      ["CodemodRegistry.match_codemods", "CodemodRegistry.add_codemod_collection", "CodemodRegistry.codemods"],
      doc="match_codemods (default branch walks self.codemods in registry order), add_codemod_collection, codemods")
shape("sched_match_files", "src/codemodder/code_directory.py", _SCHED_PROPS,
      "sched_paths_order", "order_form", "SortedPaths", ["match_files", "files_for_directory"],
      doc="match_files: sorted(list(included - excluded)) / list(set); files_for_directory: rglob enumeration")
