(** Model of codemodder/code_directory.py (and the three path properties of context.py) — definitions only.

    [fnmatch] is Python 3.12 `fnmatch.fnmatch` on POSIX (`os.path.normcase` is the identity): the pattern is
    tokenised by the rules of `fnmatch.translate` ( `*`, `?`, `[seq]`, `[!seq]`, ranges, a `[` without a closing
    `]` is a literal; the bracket body is cut into chunks at the range hyphens, empty ranges are removed, exactly
    as translate does ) and matched against the whole name; `*` matches `/` as well.

    Paths are strings ([str]); [match_files] works on the target-relative path strings
    (`str(p.relative_to(parent_path))`) and returns them sorted, as the code does before re-joining the parent. *)
From CM Require Export Base.Str Base.Types_Glob.

(* code points used below: '!'=33 '*'=42 '-'=45 '.'=46 '/'=47 '0'..'9'=48..57 ':'=58 '?'=63 '['=91 ']'=93 *)

Definition memN (c : N) (l : list N) : bool := existsb (N.eqb c) l.

(** ** Pattern items *)
Inductive item :=
| IStar                                                    (* `*`   : any string, `/` included *)
| IAny                                                     (* `?` or `[!]`-like negated empty set : any one character *)
| ILit (c : N)
| ISet (neg : bool) (singles : list N) (ranges : list (N * N))
| INever.                                                  (* `(?!)` : an empty range, matches nothing *)

Definition in_range (c : N) (r : N * N) : bool := (fst r <=? c)%N && (c <=? snd r)%N.

Definition item_ok (i : item) (c : N) : bool :=
  match i with
  | IStar => false
  | IAny => true
  | ILit d => N.eqb c d
  | ISet neg sg rg => xorb neg (memN c sg || existsb (in_range c) rg)
  | INever => false
  end.

(** ** The bracket body (`stuff = pat[i:j]`) *)

Definition last_opt (s : str) : option N := match rev s with [] => None | x :: _ => Some x end.

(** The `while True: k = pat.find('-', k, j) ...` loop.  [skip] = number of characters that cannot be a range
    hyphen (`k = i+1`, or `i+2` after `!`, then `k+3` after each hyphen); [cur] the current chunk reversed;
    [done] the finished chunks, last first.  Result: the chunks, last first. *)
Fixpoint chunks_go (skip : nat) (cur : str) (done : list str) (rest : str) : list str :=
  match rest with
  | [] => match cur, done with
          | [], d :: ds => (d ++ [45%N]) :: ds            (* chunk empty: chunks[-1] += '-' *)
          | _, _ => rev cur :: done
          end
  | c :: r =>
      match skip with
      | S k => chunks_go k (c :: cur) done r
      | O => if N.eqb c 45 then chunks_go 2 [] (rev cur :: done) r
             else chunks_go 0 (c :: cur) done r
      end
  end.

(** `for k in range(len(chunks)-1, 0, -1): if chunks[k-1][-1] > chunks[k][0]: merge` — a right fold. *)
Definition merge_step (c : str) (acc : list str) : list str :=
  match acc with
  | [] => [c]
  | d :: tl =>
      match last_opt c, d with
      | Some x, y :: d' => if (y <? x)%N then (removelast c ++ d') :: tl else c :: acc
      | _, _ => c :: acc
      end
  end.
Definition merge_chunks (cs : list str) : list str := fold_right merge_step [] cs.

(** `'-'.join(chunks)`: a range between the last character of a chunk and the first of the next. *)
Fixpoint ranges_of (cs : list str) : list (N * N) :=
  match cs with
  | c1 :: tl =>
      match tl with
      | c2 :: _ => match last_opt c1, c2 with
                   | Some a, b :: _ => (a, b) :: ranges_of tl
                   | _, _ => ranges_of tl
                   end
      | [] => []
      end
  | [] => []
  end.

Definition set_item (stuff : str) : item :=
  let skip := match stuff with 33%N :: _ => 2%nat | _ => 1%nat end in
  let cs := merge_chunks (rev (chunks_go skip [] [] stuff)) in
  match cs with
  | [] => INever
  | [ [] ] => INever                                        (* `if not stuff` *)
  | [ [33%N] ] => IAny                                      (* `elif stuff == '!'` *)
  | (33%N :: c0) :: tl => ISet true (c0 ++ concat tl) (ranges_of cs)
  | _ => ISet false (concat cs) (ranges_of cs)
  end.

(** ** Tokeniser: the first loop of `fnmatch.translate`, one character at a time. *)
Inductive pstate :=
| Normal
| Br0                (* just after a `[` that is known to be closed *)
| Br1 (acc : str)    (* after `[!` : the next character belongs to the body even if it is `]` *)
| Br2 (acc : str).   (* scanning for the closing `]`; acc = body so far, reversed *)

(** `j = i; if pat[j]=='!': j+=1; if pat[j]==']': j+=1; while j<n and pat[j]!=']': j+=1; j<n ?` *)
Definition closes (r : str) : bool :=
  let r1 := match r with 33%N :: t => t | _ => r end in
  let r2 := match r1 with 93%N :: t => t | _ => r1 end in
  memN 93 r2.

Fixpoint parse_st (st : pstate) (p : str) : list item :=
  match p with
  | [] => []
  | c :: r =>
      match st with
      | Normal =>
          if N.eqb c 42 then IStar :: parse_st Normal r
          else if N.eqb c 63 then IAny :: parse_st Normal r
          else if N.eqb c 91 then (if closes r then parse_st Br0 r else ILit 91 :: parse_st Normal r)
          else ILit c :: parse_st Normal r
      | Br0 => if N.eqb c 33 then parse_st (Br1 [c]) r else parse_st (Br2 [c]) r
      | Br1 acc => parse_st (Br2 (c :: acc)) r
      | Br2 acc => if N.eqb c 93 then set_item (rev acc) :: parse_st Normal r
                   else parse_st (Br2 (c :: acc)) r
      end
  end.

(** `if (not res) or res[-1] is not STAR: add(STAR)` — consecutive stars are one. *)
Fixpoint compress_stars (l : list item) : list item :=
  match l with
  | IStar :: tl => match tl with
                   | IStar :: _ => compress_stars tl
                   | _ => IStar :: compress_stars tl
                   end
  | i :: tl => i :: compress_stars tl
  | [] => []
  end.

Definition parse_pat (p : str) : list item := compress_stars (parse_st Normal p).

(** ** Matcher: structural recursion on the pattern, inner recursion on the name for `*`. *)
Fixpoint gmatch (p : list item) : str -> bool :=
  match p with
  | [] => fun s => match s with [] => true | _ => false end
  | IStar :: p' =>
      fix star (s : str) : bool :=
        if gmatch p' s then true else match s with [] => false | _ :: s' => star s' end
  | i :: p' => fun s => match s with [] => false | c :: s' => if item_ok i c then gmatch p' s' else false end
  end.

Definition fnmatch (name pat : str) : bool := gmatch (parse_pat pat) name.

(** `fnmatch.filter(names, pat)` *)
Definition fnfilter (names : list str) (pat : str) : list str := List.filter (fun n => fnmatch n pat) names.

(** ** str.split(":"), int(...), Path.suffix *)
Fixpoint split_on (sep : N) (s : str) : list str :=
  match s with
  | [] => [[]]
  | c :: r => let parts := split_on sep r in
              if N.eqb c sep then [] :: parts
              else match parts with
                   | h :: t => (c :: h) :: t
                   | [] => [[c]]
                   end
  end.

Definition before_colon (x : str) : str := hd [] (split_on 58 x).     (* x.split(":")[0] *)
Definition has_colon (x : str) : bool := memN 58 x.                    (* ":" in x *)

Definition is_digit (c : N) : bool := (48 <=? c)%N && (c <=? 57)%N.
(** `int(s)` on the domain of plain ASCII decimal numerals; [None] stands for ValueError.  (Python's `int` also
    accepts surrounding blanks, a sign, `_` separators and non-ASCII digits: outside the modelled domain.) *)
Definition parse_int (s : str) : option Z :=
  match s with
  | [] => None
  | _ => if forallb is_digit s
         then Some (Z.of_N (fold_left (fun acc c => (acc * 10 + (c - 48))%N) s 0%N))
         else None
  end.

Definition path_name (p : str) : str := last (split_on 47 p) [].
(** pathlib (3.12) `suffix`: `i = name.rfind('.'); name[i:] if 0 < i < len(name)-1 else ''` *)
Definition suffix_of (p : str) : str :=
  let parts := split_on 46 (path_name p) in
  match rev parts with
  | lastp :: before =>
      match before, lastp with
      | [], _ => []                              (* no dot *)
      | _, [] => []                              (* name ends with a dot *)
      | [ [] ], _ => []                          (* the only dot is the first character *)
      | _, _ => 46%N :: lastp
      end
  | [] => []
  end.

(** ** code_directory.py *)

(** `file_line_patterns(file_path, patterns)`; [None] = the ValueError of `int(result[1])`. *)
Fixpoint file_line_patterns (file_path : str) (patterns : list str) : option (list Z) :=
  match patterns with
  | [] => Some []
  | pat :: r =>
      match split_on 58 pat with
      | [g; l] =>
          if fnmatch file_path g
          then match parse_int l with
               | Some n => match file_line_patterns file_path r with Some ns => Some (n :: ns) | None => None end
               | None => None
               end
          else file_line_patterns file_path r
      | _ => file_line_patterns file_path r
      end
  end.

(** `filter_files(names, patterns, exclude)` (an `itertools.chain` of one `fnmatch.filter` per pattern) *)
Definition file_patterns (patterns : list str) (exclude : bool) : list str :=
  if exclude then List.filter (fun x => negb (has_colon x)) patterns   (* [x for x in patterns if ":" not in x] *)
  else map before_colon patterns.                                      (* [x.split(":")[0] for x in patterns] *)

Definition filter_files (names : list str) (patterns : list str) (exclude : bool) : list str :=
  concat (map (fnfilter names) (file_patterns patterns exclude)).

(** `sorted(list(set_of_strings))` : strict lexicographic order on code points, duplicates dropped. *)
Fixpoint str_cmp (a b : str) : comparison :=
  match a, b with
  | [], [] => Eq
  | [], _ :: _ => Lt
  | _ :: _, [] => Gt
  | x :: a', y :: b' => match N.compare x y with Eq => str_cmp a' b' | c => c end
  end.
Fixpoint insert_sorted (x : str) (l : list str) : list str :=
  match l with
  | [] => [x]
  | y :: r => match str_cmp x y with
              | Lt => x :: l
              | Eq => l
              | Gt => y :: insert_sorted x r
              end
  end.
Definition sorted_set (l : list str) : list str := fold_right insert_sorted [] l.

(** `match_files(parent, input_paths, exclude_paths=None, include_paths=None)` over relative path strings.
    [defaults] = (DEFAULT_INCLUDED_PATHS, DEFAULT_EXCLUDED_PATHS). *)
Definition or_default (o : option (list str)) (d : list str) : list str :=
  match o with Some l => l | None => d end.

Definition match_files (defaults : list str * list str) (rels : list str)
           (exclude_paths include_paths : option (list str)) : list str :=
  let included := filter_files rels (or_default include_paths (fst defaults)) false in
  let excluded := filter_files rels (or_default exclude_paths (snd defaults)) true in
  sorted_set (List.filter (fun f => negb (mem_str f excluded)) included).

(** ** The file-system side: what `files_for_directory` sees.
    A tree lists every entry that `Path(target).rglob("*")` yields — the entries reachable from the target
    without traversing a symbolic link — under its target-relative path.  (Oracle contract, tested.) *)
Inductive node := NFile | NDir | NLinkFile | NLinkDir | NLinkBroken.
Definition tree := list (str * node).
Definition is_regular (n : node) : bool := match n with NFile => true | _ => false end.
(** `[p for p in rglob("*") if p.is_file() and not p.is_symlink()]` *)
Definition files_for_directory (t : tree) : list str :=
  map fst (List.filter (fun e => is_regular (snd e)) t).

(** ** context.py *)
Definition or_none (l : list str) : option (list str) := match l with [] => None | _ => Some l end.   (* `l or None` *)

(** the patterns that act at file level when they exclude: those without `:` *)
Definition file_level (pats : list str) : list str := List.filter (fun x => negb (has_colon x)) pats.

(** the exclude argument `find_and_fix_paths` hands to match_files ([None] = use DEFAULT_EXCLUDED_PATHS) *)
Definition exclude_sentinel (form : exclude_sentinel_form) (path_exclude : list str) : option (list str) :=
  match form with
  | RawOrNone => or_none path_exclude
  | FileLevelOrNone => or_none (file_level path_exclude)
  end.

(** `find_and_fix_paths` *)
Definition find_and_fix_paths (form : exclude_sentinel_form) (defaults : list str * list str)
           (rels path_exclude path_include : list str) : list str :=
  match_files defaults rels (exclude_sentinel form path_exclude) (or_none path_include).

(** `included_paths` = `path_include or registry.default_include_paths` *)
Definition included_paths (path_include registry_default : list str) : list str :=
  match path_include with [] => registry_default | _ => path_include end.

(** `filter_paths(paths)` : the user's excludes as they are (no default excludes) *)
Definition filter_paths (defaults : list str * list str) (registry_default : list str)
           (paths path_exclude path_include : list str) : list str :=
  match_files defaults paths (Some path_exclude) (Some (included_paths path_include registry_default)).

(** `FindAndFixCodemod.get_files_to_analyze` *)
Definition ff_files_to_analyze (form : exclude_sentinel_form) (defaults : list str * list str) (exts : list str)
           (rels path_exclude path_include : list str) : list str :=
  let sel := find_and_fix_paths form defaults rels path_exclude path_include in
  match exts with
  | [] => sel
  | _ => List.filter (fun p => mem_str (suffix_of p) exts) sel
  end.

(** `RemediationCodemod.get_files_to_analyze` ; [has_result f] = some requested rule has a result in f. *)
Definition sast_files_to_analyze (defaults : list str * list str) (registry_default exts : list str)
           (has_result : str -> bool) (rels path_exclude path_include : list str) : list str :=
  filter_paths defaults registry_default
    (List.filter (fun p => mem_str (suffix_of p) exts && has_result p) rels) path_exclude path_include.

(** ** The dependency manifests a run may update (project_analysis/file_parsers/base_parser.py: `rglob(<name>)` per
    manifest kind; context.process_dependencies: the first parsed store whose writer succeeds is written). *)
Definition manifest_names : list str :=
  [[112; 121; 112; 114; 111; 106; 101; 99; 116; 46; 116; 111; 109; 108]%N;                 (* pyproject.toml *)
   [115; 101; 116; 117; 112; 46; 112; 121]%N;                                              (* setup.py *)
   [114; 101; 113; 117; 105; 114; 101; 109; 101; 110; 116; 115; 46; 116; 120; 116]%N;      (* requirements.txt *)
   [115; 101; 116; 117; 112; 46; 99; 102; 103]%N].                                         (* setup.cfg *)

Definition manifest_kind_ok (lf : manifest_loc_form) (n : node) : bool :=
  match n with
  | NFile => true
  | NLinkFile => match lf with AllNamed => true | SkipSymlinks => false end   (* a link that resolves to a file parses like one *)
  | _ => false
  end.

(** the repaired `process_dependencies` keeps a store iff
    `match_files(directory, [store.file], <file-level excludes> or None, ["*"])` is non-empty *)
Definition manifest_not_excluded (defaults : list str * list str) (path_exclude : list str) (p : str) : bool :=
  match match_files defaults [p] (exclude_sentinel FileLevelOrNone path_exclude) (Some [[42%N]]) with
  | [] => false
  | _ => true
  end.

Definition manifest_candidates (lf : manifest_loc_form) (ef : manifest_excl_form) (defaults : list str * list str)
           (t : tree) (path_exclude : list str) : list str :=
  let named := map fst (List.filter (fun e => mem_str (path_name (fst e)) manifest_names && manifest_kind_ok lf (snd e)) t) in
  match ef with
  | NoManifestExclusion => named
  | FileLevelExcludes => List.filter (manifest_not_excluded defaults path_exclude) named
  end.
