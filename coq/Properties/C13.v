(** C13 — line-level include/exclude is honoured and change entries name the edited line.

    Full statement: for all codemods K, files with n single-line candidate sites at arbitrary lines, and all
    subsets E (excluded) or I (included) of those lines written as relative, globbed or absolute `path:line`
    patterns, alone or combined: lines rewritten == permitted sites and {change.lineNumber} == lines rewritten.

    Proved here, for all inputs, about the framework logic every conforming transformer goes through:
      - the decision rule of filter_by_path_includes_or_excludes / match_line ([C13_line_filter_table]);
      - which lines a pattern list yields for a file in `_process_file`, for the variant the source implements
        ([C13_pattern_reaches_file], indexed by Tables.line_pattern_path_form; the pinned variant is refuted by witness);
      - the change line is the start line of the filtered position ([C13_change_line_is_node_start]);
      - a transformer that sends its candidates through the filter rewrites exactly the permitted single-line sites
        and reports exactly their lines ([C13_excluded_never_reported]).
    NOT a theorem (it is a fact about ~65 transformer classes, each deciding on its own whether to call the filter):
    that codemod K does go through the filter. That is the per-codemod conformance search of harness/c13.py; the
    transformers found to skip the filter are listed in findings/C13.json. *)
From Coq Require Import Strings.String.
From CM Require Import Base.GlobLit Base.Types_Glob Model.Glob Model.LineFilter Spec.GlobSpec Spec.LineFilterSpec
     Proofs.GlobFacts Proofs.LineFilterFacts Generated.Tables.

(** ** The decision table *)
Theorem C13_line_filter_table : forall ex inc p,
  (* an excluded line is never selected *)
  (forall l, In l ex -> match_line p l = true -> filter_by_path_includes_or_excludes ex inc p = false)
  (* no exclusions, some inclusions, the node on none of them: not selected *)
  /\ (ex = [] -> inc <> [] -> (forall l, In l inc -> match_line p l = false) ->
      filter_by_path_includes_or_excludes ex inc p = false)
  (* exclusions given and the node on none of them: selected, whatever the inclusion list says (exclude shadows include) *)
  /\ (ex <> [] -> (forall l, In l ex -> match_line p l = false) -> filter_by_path_includes_or_excludes ex inc p = true)
  (* no exclusions, the node on an included line: selected *)
  /\ (ex = [] -> forall l, In l inc -> match_line p l = true -> filter_by_path_includes_or_excludes ex inc p = true)
  (* no line lists at all: selected *)
  /\ filter_by_path_includes_or_excludes [] [] p = true
  (* a node spanning several lines matches no line *)
  /\ (start_line p <> end_line p -> forall l, match_line p l = false)
  (* in one formula, for a node confined to line n *)
  /\ (forall n, single_line p n -> (filter_by_path_includes_or_excludes ex inc p = true <-> Permitted ex inc n)).
Proof.
  intros ex inc p. split; [| split; [| split; [| split; [| split; [| split]]]]].
  - intros l Hin Hm. unfold filter_by_path_includes_or_excludes. destruct ex as [| e ex]; [destruct Hin |].
    apply Bool.negb_false_iff. apply existsb_exists. exists l. split; assumption.
  - intros -> Hinc Hall. unfold filter_by_path_includes_or_excludes. destruct inc as [| i inc]; [congruence |].
    destruct (existsb (match_line p) (i :: inc)) eqn:E; [| reflexivity].
    apply existsb_exists in E. destruct E as [l [Hl Hm]]. rewrite (Hall l Hl) in Hm. discriminate.
  - intros Hex Hall. unfold filter_by_path_includes_or_excludes. destruct ex as [| e ex]; [congruence |].
    apply Bool.negb_true_iff. destruct (existsb (match_line p) (e :: ex)) eqn:E; [| reflexivity].
    apply existsb_exists in E. destruct E as [l [Hl Hm]]. rewrite (Hall l Hl) in Hm. discriminate.
  - intros -> l Hin Hm. unfold filter_by_path_includes_or_excludes. destruct inc as [| i inc]; [destruct Hin |].
    apply existsb_exists. exists l. split; assumption.
  - reflexivity.
  - apply match_line_multiline.
  - intros n Hs. rewrite (filter_single p n ex inc Hs). apply permittedb_Permitted.
Qed.
Print Assumptions C13_line_filter_table.

(** ** `path:line` patterns reach the file when written relative to the target *)
Definition w_as_passed : str := lit "/t/proj/b.py".
Definition w_rel : str := lit "b.py".
Definition w_pats : list str := [lit "b.py:2"].

Definition C13_pattern_reaches_file_statement (v : path_form) : Prop :=
  match v with
  | Both =>
      (* exactly the lines denoted by the patterns, matched against the relative path or the path as passed *)
      (forall as_passed rel pats lines, process_file_lines v as_passed (Some rel) pats = Some lines ->
         forall n, In n lines <-> Denotes pats as_passed rel n)
      (* in particular `g:l` with g matching the target-relative path yields line l *)
      /\ (forall as_passed rel pats lines g l n,
            process_file_lines v as_passed (Some rel) pats = Some lines ->
            In (g ++ 58%N :: l) pats -> has_colon g = false -> has_colon l = false -> parse_int l = Some n ->
            GlobMatches g rel -> In n lines)
  | AsPassedAbsolute =>
      exists as_passed rel pats g l n,
        In (g ++ 58%N :: l) pats /\ has_colon g = false /\ has_colon l = false /\ parse_int l = Some n /\
        GlobMatches g rel /\ process_file_lines v as_passed (Some rel) pats = Some []
  end.
Lemma C13_pattern_reaches_file_all v : C13_pattern_reaches_file_statement v.
Proof.
  destruct v; simpl.
  - exists w_as_passed, w_rel, w_pats, (lit "b.py"), (lit "2"), 2%Z.
    repeat split; try (vm_compute; reflexivity).
    + left. vm_compute. reflexivity.
    + apply fnmatch_GlobMatches. vm_compute. reflexivity.
  - split.
    + exact process_file_lines_both.
    + intros as_passed rel pats lines g l n H Hin Hg Hl Hp Hm.
      apply (process_file_lines_both _ _ _ _ H n). exists (g ++ 58%N :: l), g, l.
      repeat split; [exact Hin | apply split_on_one_sep; assumption | exact Hp | right; exact Hm].
Qed.
Theorem C13_pattern_reaches_file : C13_pattern_reaches_file_statement line_pattern_path_form.
Proof. exact (C13_pattern_reaches_file_all line_pattern_path_form). Qed.
Print Assumptions C13_pattern_reaches_file.

(** Whatever the variant, no line appears that no pattern denotes (nothing is excluded/included by accident). *)
Theorem C13_no_spurious_line : forall v as_passed rel pats lines,
  process_file_lines v as_passed (Some rel) pats = Some lines -> forall n, In n lines -> Denotes pats as_passed rel n.
Proof.
  intros [] as_passed rel pats lines H n Hin.
  - apply (process_file_lines_aspassed _ _ _ _ H n) in Hin. destruct Hin as [p [g [l [H1 [H2 [H3 H4]]]]]].
    exists p, g, l. repeat split; try assumption. left. exact H4.
  - apply (process_file_lines_both _ _ _ _ H n). exact Hin.
Qed.
Print Assumptions C13_no_spurious_line.

(** ** The change entry names the start line of the position that was filtered *)
Theorem C13_change_line_is_node_start : forall p n, single_line p n -> report_change p = n.
Proof. intros p n [Hs _]. exact Hs. Qed.
Print Assumptions C13_change_line_is_node_start.

(** ** A transformer that filters its candidates rewrites exactly the permitted single-line sites and reports their lines *)
Theorem C13_excluded_never_reported : forall ex inc cands,
  (forall p, In p cands -> start_line p = end_line p) ->
  (* every reported line is a permitted line carrying a candidate *)
  (forall n, In n (reported ex inc cands) <-> Permitted ex inc n /\ exists p, In p cands /\ single_line p n)
  (* a candidate is rewritten iff its line is permitted *)
  /\ (forall p, In p cands -> (In p (rewritten ex inc cands) <-> Permitted ex inc (start_line p))).
Proof.
  intros ex inc cands Hsingle. split.
  - intros n. unfold reported, rewritten. rewrite in_map_iff. split.
    + intros [p [Hr Hin]]. apply filter_In in Hin. destruct Hin as [Hin Hf].
      assert (Hs : single_line p n) by (split; [exact Hr | rewrite <- (Hsingle p Hin); exact Hr]).
      split; [| exists p; split; assumption].
      apply permittedb_Permitted. rewrite <- (filter_single p n ex inc Hs). exact Hf.
    + intros [Hperm [p [Hin Hs]]]. exists p. split; [apply Hs |]. apply filter_In. split; [exact Hin |].
      rewrite (filter_single p n ex inc Hs). apply permittedb_Permitted. exact Hperm.
  - intros p Hin. unfold rewritten. rewrite filter_In.
    assert (Hs : single_line p (start_line p)) by (split; [reflexivity | symmetry; apply Hsingle; exact Hin]).
    rewrite (filter_single p _ ex inc Hs), permittedb_Permitted. tauto.
Qed.
Print Assumptions C13_excluded_never_reported.

(** ** Non-vacuity and the documented corner: a node spanning lines 2-3 is not excluded by `:2` and is reported at 2 *)
Example C13_example_table :
  let cands := [((2, 0), (2, 9)); ((4, 0), (4, 9)); ((6, 4), (6, 20))]%Z in
  reported [4%Z] [] cands = [2; 6]%Z /\ reported [] [4%Z] cands = [4%Z] /\ reported [4%Z] [4%Z] cands = [2; 6]%Z
  /\ reported [] [] cands = [2; 4; 6]%Z
  /\ reported [2%Z] [] [((2, 0), (3, 5))]%Z = [2%Z].
Proof. vm_compute. repeat split; reflexivity. Qed.

Example C13_example_patterns :
  process_file_lines Both (lit "/t/proj/sub/b.py") (Some (lit "sub/b.py"))
    [lit "sub/b.py:2"; lit "*/b.py:4"; lit "/t/proj/sub/b.py:6"; lit "a.py:8"; lit "sub/b.py"; lit "s*:2"; lit "sub/b.py:1:2"]
  = Some [4; 6; 2]%Z
  /\ process_file_lines AsPassedAbsolute (lit "/t/proj/sub/b.py") (Some (lit "sub/b.py"))
    [lit "sub/b.py:2"; lit "*/b.py:4"; lit "/t/proj/sub/b.py:6"; lit "a.py:8"]
  = Some [4; 6]%Z
  /\ process_file_lines Both (lit "/t/proj/b.py") (Some (lit "b.py")) [lit "b.py:x"] = None.
Proof. vm_compute. repeat split; reflexivity. Qed.
