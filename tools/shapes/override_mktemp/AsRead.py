# src/core_codemods/tempfile_mktemp.py at the commit the model was written against (shape reference; not executed)
class TempfileMktempTransformer:
    def filter_by_result(self, node) -> bool:
        match node:
            case cst.SimpleStatementLine():
                pos_to_match = self.node_position(node)
                return self.results is None or any(
                    self.match_location(pos_to_match, result)
                    for result in self.results or []
                )
        return False

    def match_location(self, pos, result):
        return any(same_line(pos, location) for location in result.locations)

