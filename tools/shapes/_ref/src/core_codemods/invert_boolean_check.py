import libcst as cst

from codemodder.codemods.libcst_transformer import (
    LibcstResultTransformer,
    LibcstTransformerPipeline,
)
from core_codemods.api import CoreCodemod, Metadata, ReviewGuidance


class InvertedBooleanCheckTransformer(LibcstResultTransformer):
    change_description = "Flips inverted boolean check."

    def leave_UnaryOperation(
        self, original_node: cst.UnaryOperation, updated_node: cst.UnaryOperation
    ) -> cst.BaseExpression:
        if not self.node_is_selected(original_node):
            return updated_node

        if isinstance(updated_node.operator, cst.Not) and isinstance(
            (comparison := updated_node.expression), cst.Comparison
        ):
            return self.report_new_comparison(original_node, updated_node, comparison)
        return updated_node

    def report_new_comparison(
        self,
        original_node: cst.UnaryOperation,
        updated_node: cst.UnaryOperation,
        comparison: cst.Comparison,
    ) -> cst.BaseExpression:
        if len(comparison.comparisons) == 1 and isinstance(
            comparison.comparisons[0].operator, cst.Is
        ):
            # Handle 'not status is True' -> 'not status'
            if comparison.comparisons[0].comparator.value == "True":
                self.report_change(original_node)
                return updated_node.with_changes(expression=comparison.left)

            # Handle 'not status is False' -> 'status'
            if comparison.comparisons[0].comparator.value == "False":
                self.report_change(original_node)
                # the operand takes the place of the whole `not` expression:
                # it needs that expression's parentheses
                return comparison.left.with_changes(
                    lpar=[*updated_node.lpar, *comparison.lpar, *comparison.left.lpar],
                    rpar=[*comparison.left.rpar, *comparison.rpar, *updated_node.rpar],
                )

        inverted_comparisons = self._invert_comparisons(comparison)
        if inverted_comparisons is None:
            return updated_node

        self.report_change(original_node)
        return comparison.with_changes(
            comparisons=inverted_comparisons,
            lpar=[*updated_node.lpar, *comparison.lpar],
            rpar=[*comparison.rpar, *updated_node.rpar],
        )

    def leave_FormattedStringExpression(
        self,
        original_node: cst.FormattedStringExpression,
        updated_node: cst.FormattedStringExpression,
    ):
        # `f"{{1, 2} != x}"` starts with an escaped brace: when dropping `not`
        # leaves an expression that starts with `{`, keep it apart from the
        # replacement field's own brace
        if (
            not updated_node.expression.deep_equals(original_node.expression)
            and self.code(updated_node.expression).startswith("{")
            and not self.code(original_node.expression).startswith("{")
            and updated_node.whitespace_before_expression.empty
        ):
            return updated_node.with_changes(
                whitespace_before_expression=cst.SimpleWhitespace(" ")
            )
        return updated_node

    def _invert_comparisons(
        self, comparison: cst.Comparison
    ) -> list[cst.ComparisonTarget] | None:
        # `not a == b == c` means `not (a == b and b == c)`: no chain of
        # inverted operators is equivalent to it
        if len(comparison.comparisons) != 1:
            return None

        inverted_comparisons = []
        for comparison_op in comparison.comparisons:
            match comparison_op.operator:
                case cst.Equal():
                    new_operator = cst.NotEqual()
                case cst.NotEqual():
                    new_operator = cst.Equal()
                case cst.LessThan():
                    new_operator = cst.GreaterThanEqual()
                case cst.GreaterThan():
                    new_operator = cst.LessThanEqual()
                case cst.LessThanEqual():
                    new_operator = cst.GreaterThan()
                case cst.GreaterThanEqual():
                    new_operator = cst.LessThan()
                case cst.Is():
                    new_operator = cst.IsNot()
                case cst.IsNot():
                    new_operator = cst.Is()
                case cst.In():
                    new_operator = cst.NotIn()
                case cst.NotIn():
                    new_operator = cst.In()
                case _:
                    return None

            inverted_comparisons.append(
                comparison_op.with_changes(operator=new_operator)
            )
        return inverted_comparisons


InvertedBooleanCheck = CoreCodemod(
    metadata=Metadata(
        name="invert-boolean-check",
        summary="Invert Boolean Check",
        review_guidance=ReviewGuidance.MERGE_WITHOUT_REVIEW,
        references=[],
    ),
    transformer=LibcstTransformerPipeline(InvertedBooleanCheckTransformer),
)
