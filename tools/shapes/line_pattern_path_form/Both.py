# src/codemodder/codemods/base_codemod.py at HEAD: _file_line_patterns, BaseCodemod._process_file
def _file_line_patterns(filename: Path, directory: Path, patterns) -> list[int]:
    """
    Lines included or excluded for `filename`. Like every other path pattern,
    `path:line` patterns are relative to the target directory; patterns that
    match the path as given keep working.
    """
    lines = file_line_patterns(filename, patterns)
    if filename.is_relative_to(directory):
        relative_path = filename.relative_to(directory)
        for line in file_line_patterns(relative_path, patterns):
            if line not in lines:
                lines.append(line)
    return lines


class BaseCodemod:
    def _process_file(
        self,
        filename: Path,
        context: CodemodExecutionContext,
        results: ResultSet | None,
        rules: list[str],
    ):
        line_exclude = _file_line_patterns(
            filename, context.directory, context.path_exclude
        )
        line_include = _file_line_patterns(
            filename, context.directory, context.path_include
        )
        findings_for_rule = None
        if results is not None:
            findings_for_rule = []
            for rule in rules:
                findings_for_rule.extend(
                    results.results_for_rule_and_file(context, rule, filename)
                )
            logger.debug("%d findings for %s", len(findings_for_rule), filename)

        file_context = FileContext(
            context.directory,
            filename,
            line_exclude,
            line_include,
            findings_for_rule,
        )
        if results is not None and not findings_for_rule:
            logger.debug("no findings for %s, short-circuiting analysis", filename)
            return file_context

        if change_set := self.transformer.apply(
            context, file_context, findings_for_rule
        ):
            file_context.add_changeset(change_set)

        return file_context
