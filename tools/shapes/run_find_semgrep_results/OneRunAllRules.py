# src/codemodder/codemodder.py @ HEAD
def find_semgrep_results(
    context: CodemodExecutionContext,
    codemods: Sequence[BaseCodemod],
    files_to_analyze: list[Path] | None = None,
) -> ResultSet:
    """Run semgrep once with all configuration files from all codemods and return a set of applicable rule IDs"""
    if not (
        yaml_files := list(
            itertools.chain.from_iterable(
                [
                    codemod.detector.get_yaml_files(codemod._internal_name)
                    for codemod in codemods
                    if codemod.detector
                    and isinstance(codemod.detector, SemgrepRuleDetector)
                ]
            )
        )
    ):
        return ResultSet()

    return run_semgrep(context, yaml_files, files_to_analyze)
