from libcst import matchers

from codemodder.codemods.libcst_transformer import NewArg


class SecureCookieMixin:
    def _choose_new_args(self, original_node):
        new_args = [
            NewArg(name="secure", value="True", add_if_missing=True),
            NewArg(name="httponly", value="True", add_if_missing=True),
        ]

        samesite = matchers.Arg(
            keyword=matchers.Name(value="samesite"),
            value=matchers.SimpleString(value="'Strict'"),
        )

        # samesite=Strict is OK because it's more restrictive than Lax.
        if not any(matchers.matches(arg, samesite) for arg in original_node.args):
            new_args.append(
                NewArg(name="samesite", value="'Lax'", add_if_missing=True),
            )

        return new_args
