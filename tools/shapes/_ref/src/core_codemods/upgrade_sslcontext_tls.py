from codemodder.codemods.libcst_transformer import NewArg
from core_codemods.api import Metadata, Reference, ReviewGuidance, SimpleCodemod


class UpgradeSSLContextTLS(SimpleCodemod):
    metadata = Metadata(
        name="upgrade-sslcontext-tls",
        summary="Upgrade TLS Version In SSLContext",
        review_guidance=ReviewGuidance.MERGE_AFTER_CURSORY_REVIEW,
        references=[
            Reference(
                url="https://docs.python.org/3/library/ssl.html#security-considerations"
            ),
            Reference(url="https://datatracker.ietf.org/doc/rfc8996/"),
            Reference(url="https://www.digicert.com/blog/depreciating-tls-1-0-and-1-1"),
        ],
    )
    change_description = "Replaces known insecure TLS/SSL protocol versions in SSLContext with secure ones."
    change_description = "Upgrade to use a safe version of TLS in SSLContext"

    # TODO: in the majority of cases, using PROTOCOL_TLS_CLIENT will be the
    # right fix. However in some cases it will be appropriate to use
    # PROTOCOL_TLS_SERVER instead. We currently don't have a good way to handle
    # this. Eventually, when the platform supports parameters, we want to
    # revisit this to provide PROTOCOL_TLS_SERVER as an alternative fix.
    SAFE_TLS_PROTOCOL_VERSION = "ssl.PROTOCOL_TLS_CLIENT"
    detector_pattern = """
            rules:
              - patterns:
                - pattern-inside: |
                      import ssl
                      ...
                - pattern-either:
                    - pattern: ssl.SSLContext()
                    - pattern: ssl.SSLContext(...,ssl.PROTOCOL_SSLv2,...)
                    - pattern: ssl.SSLContext(...,protocol=ssl.PROTOCOL_SSLv2,...)
                    - pattern: ssl.SSLContext(...,ssl.PROTOCOL_SSLv3,...)
                    - pattern: ssl.SSLContext(...,protocol=ssl.PROTOCOL_SSLv3,...)
                    - pattern: ssl.SSLContext(...,ssl.PROTOCOL_TLSv1,...)
                    - pattern: ssl.SSLContext(...,protocol=ssl.PROTOCOL_TLSv1,...)
                    - pattern: ssl.SSLContext(...,ssl.PROTOCOL_TLSv1_1,...)
                    - pattern: ssl.SSLContext(...,protocol=ssl.PROTOCOL_TLSv1_1,...)
                    - pattern: ssl.SSLContext(...,ssl.PROTOCOL_TLS,...)
                    - pattern: ssl.SSLContext(...,protocol=ssl.PROTOCOL_TLS,...)
        """

    def on_result_found(self, original_node, updated_node):
        self.remove_unused_import(original_node)
        self.add_needed_import("ssl")

        if len((args := original_node.args)) == 1 and args[0].keyword is None:
            new_args = [self.make_new_arg(self.SAFE_TLS_PROTOCOL_VERSION)]
        else:
            new_args = self.replace_args(
                original_node,
                [
                    NewArg(
                        name="protocol",
                        value=self.SAFE_TLS_PROTOCOL_VERSION,
                        add_if_missing=True,
                    )
                ],
            )
        return self.update_arg_target(updated_node, new_args)
