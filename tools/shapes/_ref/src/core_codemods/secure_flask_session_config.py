import libcst as cst
from libcst import matchers
from libcst.codemod import Codemod, CodemodContext
from libcst.metadata import ParentNodeProvider

from codemodder.codemods.base_visitor import BaseTransformer
from codemodder.codemods.utils_mixin import NameResolutionMixin
from codemodder.codetf import Change
from codemodder.file_context import FileContext
from codemodder.utils.utils import extract_targets_of_assignment, true_value
from core_codemods.api import Metadata, Reference, ReviewGuidance, SimpleCodemod


class SecureFlaskSessionConfig(SimpleCodemod, Codemod):
    metadata = Metadata(
        name="secure-flask-session-configuration",
        summary="Flip Insecure `Flask` Session Configurations",
        review_guidance=ReviewGuidance.MERGE_AFTER_REVIEW,
        references=[
            Reference(
                url="https://owasp.org/www-community/controls/SecureCookieAttribute"
            ),
            Reference(
                url="https://cheatsheetseries.owasp.org/cheatsheets/Session_Management_Cheat_Sheet.html"
            ),
        ],
    )
    change_description = "Flip Flask session configuration if defined as insecure."

    def transform_module_impl(self, tree: cst.Module) -> cst.Module:
        flask_codemod = FixFlaskConfig(self.context, self.file_context)
        result_tree = flask_codemod.transform_module(tree)

        if not flask_codemod.flask_app_name:
            return tree

        # Later: if we want to write at the end of the module any
        # default insecure configs.
        # if flask_codemod.configs_to_write:
        #     return self.insert_secure_configs(
        #         tree,
        #         result_tree,
        #         flask_codemod.flask_app_name,
        #         flask_codemod.configs_to_write,
        #     )
        return result_tree

    # def insert_secure_configs(
    #     self,
    #     original_node: cst.Module,
    #     updated_node: cst.Module,
    #     app_name: str,
    #     configs: dict,
    # ) -> cst.Module:
    #     if not configs:
    #         return updated_node
    #
    #     config_string = ", ".join(
    #         f"{key}='{value[0]}'" if isinstance(value[0], str) else f"{key}={value[0]}"
    #         for key, value in configs.items()
    #         if value and value[0] is not None
    #     )
    #     if not config_string:
    #         return updated_node
    #
    #     self.report_change_endof_module(original_node)
    #     final_line = cst.parse_statement(f"{app_name}.config.update({config_string})")
    #     new_body = updated_node.body + (final_line,)
    #     return updated_node.with_changes(body=new_body)
    #
    # def report_change_endof_module(self, original_node: cst.Module) -> None:
    #     # line_number is the end of the module where we will insert the new line.
    #     pos_to_match = self.node_position(original_node)
    #     line_number = pos_to_match.end.line
    #     self.file_context.codemod_changes.append(
    #         Change(line_number, self.CHANGE_DESCRIPTION)
    #     )


class FixFlaskConfig(BaseTransformer, NameResolutionMixin):
    """
    Visitor to find calls to flask.Flask and related `.config` accesses.
    """

    METADATA_DEPENDENCIES = (
        *BaseTransformer.METADATA_DEPENDENCIES,
        ParentNodeProvider,
    )
    SECURE_SESSION_CONFIGS = {
        # None value indicates unassigned, using default is safe
        # values in order of precedence
        "SESSION_COOKIE_HTTPONLY": [None, True],
        "SESSION_COOKIE_SECURE": [True],
        "SESSION_COOKIE_SAMESITE": ["Lax", "Strict"],
    }

    def __init__(self, codemod_context: CodemodContext, file_context: FileContext):
        super().__init__(
            codemod_context, [], file_context.line_include, file_context.line_exclude
        )
        self.flask_app_name = ""
        # Later: if we want to store configs to write later
        # self.configs_to_write = self.SECURE_SESSION_CONFIGS.copy()
        self.file_context = file_context

    def _store_flask_app(self, original_node) -> None:
        flask_app_parent = self.get_metadata(ParentNodeProvider, original_node)
        match flask_app_parent:
            case cst.AnnAssign() | cst.Assign():
                targets = extract_targets_of_assignment(flask_app_parent)
                # TODO: handle other assignments ex. l[0] = Flask(...) , a.b = Flask(...)
                if targets and matchers.matches(
                    first_target := targets[0], matchers.Name()
                ):
                    self.flask_app_name = first_target.value

    # def _remove_config(self, key):
    #     try:
    #         del self.configs_to_write[key]
    #     except KeyError:
    #         pass

    def _get_secure_config_val(self, key):
        val = self.SECURE_SESSION_CONFIGS[key][0] or self.SECURE_SESSION_CONFIGS[key][1]
        return cst.parse_expression(f'"{val}"' if isinstance(val, str) else f"{val}")

    @property
    def flask_app_is_assigned(self):
        return bool(self.flask_app_name)

    def leave_Call(self, original_node: cst.Call, updated_node: cst.Call):
        if self.find_base_name(original_node.func) == "flask.Flask":
            self._store_flask_app(original_node)

        if self.flask_app_is_assigned and self._is_config_update_call(original_node):
            return self.call_node_with_secure_configs(original_node, updated_node)
        return updated_node

    def call_node_with_secure_configs(
        self, original_node: cst.Call, updated_node: cst.Call
    ) -> cst.Call:
        new_args = []
        changed = False
        for arg in updated_node.args:
            if (
                arg.keyword
                and (key := arg.keyword.value) in self.SECURE_SESSION_CONFIGS
            ):
                # self._remove_config(key)
                if true_value(arg.value) not in self.SECURE_SESSION_CONFIGS[key]:  # type: ignore
                    safe_value = self._get_secure_config_val(key)
                    arg = arg.with_changes(value=safe_value)
                    changed = True
            new_args.append(arg)

        if changed:
            self.report_change(original_node)
        return updated_node.with_changes(args=new_args)

    def leave_Assign(self, original_node: cst.Assign, updated_node: cst.Assign):
        if self.flask_app_is_assigned and self._is_config_subscript(original_node):
            return self.assign_node_with_secure_config(original_node, updated_node)
        return updated_node

    def assign_node_with_secure_config(
        self, original_node: cst.Assign, updated_node: cst.Assign
    ) -> cst.Assign:
        key = true_value(updated_node.targets[0].target.slice[0].slice.value)
        if key in self.SECURE_SESSION_CONFIGS:
            # self._remove_config(key)
            if true_value(updated_node.value) not in self.SECURE_SESSION_CONFIGS[key]:  # type: ignore
                safe_value = self._get_secure_config_val(key)
                self.report_change(original_node)
                return updated_node.with_changes(value=safe_value)
        return updated_node

    def _is_config_update_call(self, original_node: cst.Call):
        config = matchers.Name(value="config")
        app_name = matchers.Name(value=self.flask_app_name)
        app_config_node = matchers.Attribute(value=app_name, attr=config)
        update = cst.Name(value="update")
        return matchers.matches(
            original_node.func, matchers.Attribute(value=app_config_node, attr=update)
        )

    def _is_config_subscript(self, original_node: cst.Assign):
        config = matchers.Name(value="config")
        app_name = matchers.Name(value=self.flask_app_name)
        app_config_node = matchers.Attribute(value=app_name, attr=config)
        return matchers.matches(
            original_node.targets[0].target, matchers.Subscript(value=app_config_node)
        )

    def report_change(self, original_node):
        line_number = self.lineno_for_node(original_node)
        self.file_context.codemod_changes.append(
            Change(
                lineNumber=line_number,
                description=SecureFlaskSessionConfig.change_description,
            )
        )
