from codemodder.registry import CodemodCollection

from .add_requests_timeouts import AddRequestsTimeouts
from .break_or_continue_out_of_loop import BreakOrContinueOutOfLoop
from .combine_isinstance_issubclass import CombineIsinstanceIssubclass
from .combine_startswith_endswith import CombineStartswithEndswith
from .defectdojo.semgrep.avoid_insecure_deserialization import (
    AvoidInsecureDeserialization,
)
from .defectdojo.semgrep.django_secure_set_cookie import DjangoSecureSetCookie
from .disable_graphql_introspection import DisableGraphQLIntrospection
from .django_debug_flag_on import DjangoDebugFlagOn
from .django_json_response_type import DjangoJsonResponseType
from .django_model_without_dunder_str import DjangoModelWithoutDunderStr
from .django_receiver_on_top import DjangoReceiverOnTop
from .django_session_cookie_secure_off import DjangoSessionCookieSecureOff
from .enable_jinja2_autoescape import EnableJinja2Autoescape
from .exception_without_raise import ExceptionWithoutRaise
from .file_resource_leak import FileResourceLeak
from .fix_assert_tuple import FixAssertTuple
from .fix_async_task_instantiation import FixAsyncTaskInstantiation
from .fix_dataclass_defaults import FixDataclassDefaults
from .fix_deprecated_abstractproperty import FixDeprecatedAbstractproperty
from .fix_deprecated_logging_warn import FixDeprecatedLoggingWarn
from .fix_empty_sequence_comparison import FixEmptySequenceComparison
from .fix_float_equality import FixFloatEquality
from .fix_hasattr_call import TransformFixHasattrCall
from .fix_math_isclose import FixMathIsClose
from .fix_missing_self_or_cls import FixMissingSelfOrCls
from .fix_mutable_params import FixMutableParams
from .flask_enable_csrf_protection import FlaskEnableCSRFProtection
from .flask_json_response_type import FlaskJsonResponseType
from .harden_pickle_load import HardenPickleLoad
from .harden_pyyaml import HardenPyyaml
from .harden_ruamel import HardenRuamel
from .https_connection import HTTPSConnection
from .invert_boolean_check import InvertedBooleanCheck
from .jwt_decode_verify import JwtDecodeVerify
from .lazy_logging import LazyLogging
from .limit_readline import LimitReadline
from .literal_or_new_object_identity import LiteralOrNewObjectIdentity
from .lxml_safe_parser_defaults import LxmlSafeParserDefaults
from .lxml_safe_parsing import LxmlSafeParsing
from .numpy_nan_equality import NumpyNanEquality
from .order_imports import OrderImports
from .process_creation_sandbox import ProcessSandbox
from .remove_assertion_in_pytest_raises import RemoveAssertionInPytestRaises
from .remove_debug_breakpoint import RemoveDebugBreakpoint
from .remove_future_imports import RemoveFutureImports
from .remove_module_global import RemoveModuleGlobal
from .remove_unnecessary_f_str import RemoveUnnecessaryFStr
from .remove_unused_imports import RemoveUnusedImports
from .replace_flask_send_file import ReplaceFlaskSendFile
from .requests_verify import RequestsVerify
from .secure_flask_cookie import SecureFlaskCookie
from .secure_flask_session_config import SecureFlaskSessionConfig
from .secure_random import SecureRandom
from .semgrep.semgrep_django_secure_set_cookie import SemgrepDjangoSecureSetCookie
from .semgrep.semgrep_enable_jinja2_autoescape import SemgrepEnableJinja2Autoescape
from .semgrep.semgrep_harden_pyyaml import SemgrepHardenPyyaml
from .semgrep.semgrep_jwt_decode_verify import SemgrepJwtDecodeVerify
from .semgrep.semgrep_nan_injection import SemgrepNanInjection
from .semgrep.semgrep_no_csrf_exempt import SemgrepNoCsrfExempt
from .semgrep.semgrep_rsa_key_size import SemgrepRsaKeySize
from .semgrep.semgrep_sandbox_process_creation import SemgrepSandboxProcessCreation
from .semgrep.semgrep_sql_parameterization import SemgrepSQLParameterization
from .semgrep.semgrep_subprocess_shell_false import SemgrepSubprocessShellFalse
from .semgrep.semgrep_url_sandbox import SemgrepUrlSandbox
from .semgrep.semgrep_use_defused_xml import SemgrepUseDefusedXml
from .sonar.sonar_break_or_continue_out_of_loop import SonarBreakOrContinueOutOfLoop
from .sonar.sonar_disable_graphql_introspection import SonarDisableGraphQLIntrospection
from .sonar.sonar_django_json_response_type import SonarDjangoJsonResponseType
from .sonar.sonar_django_model_without_dunder_str import (
    SonarDjangoModelWithoutDunderStr,
)
from .sonar.sonar_django_receiver_on_top import SonarDjangoReceiverOnTop
from .sonar.sonar_enable_jinja2_autoescape import SonarEnableJinja2Autoescape
from .sonar.sonar_exception_without_raise import SonarExceptionWithoutRaise
from .sonar.sonar_fix_assert_tuple import SonarFixAssertTuple
from .sonar.sonar_fix_float_equality import SonarFixFloatEquality
from .sonar.sonar_fix_math_isclose import SonarFixMathIsClose
from .sonar.sonar_fix_missing_self_or_cls import SonarFixMissingSelfOrCls
from .sonar.sonar_flask_json_response_type import SonarFlaskJsonResponseType
from .sonar.sonar_invert_boolean_check import SonarInvertedBooleanCheck
from .sonar.sonar_jwt_decode_verify import SonarJwtDecodeVerify
from .sonar.sonar_literal_or_new_object_identity import SonarLiteralOrNewObjectIdentity
from .sonar.sonar_numpy_nan_equality import SonarNumpyNanEquality
from .sonar.sonar_remove_assertion_in_pytest_raises import (
    SonarRemoveAssertionInPytestRaises,
)
from .sonar.sonar_sandbox_process_creation import SonarSandboxProcessCreation
from .sonar.sonar_secure_random import SonarSecureRandom
from .sonar.sonar_sql_parameterization import SonarSQLParameterization
from .sonar.sonar_tempfile_mktemp import SonarTempfileMktemp
from .sonar.sonar_timezone_aware_datetime import SonarTimezoneAwareDatetime
from .sonar.sonar_url_sandbox import SonarUrlSandbox
from .sql_parameterization import SQLQueryParameterization
from .str_concat_in_seq_literal import StrConcatInSeqLiteral
from .subprocess_shell_false import SubprocessShellFalse
from .tempfile_mktemp import TempfileMktemp
from .timezone_aware_datetime import TimezoneAwareDatetime
from .upgrade_sslcontext_minimum_version import UpgradeSSLContextMinimumVersion
from .upgrade_sslcontext_tls import UpgradeSSLContextTLS
from .url_sandbox import UrlSandbox
from .use_defused_xml import UseDefusedXml
from .use_generator import UseGenerator
from .use_set_literal import UseSetLiteral
from .use_walrus_if import UseWalrusIf
from .with_threading_lock import WithThreadingLock

registry = CodemodCollection(
    origin="pixee",
    codemods=[
        AddRequestsTimeouts,
        DjangoDebugFlagOn,
        DjangoSessionCookieSecureOff,
        EnableJinja2Autoescape,
        FixDeprecatedAbstractproperty,
        FixMutableParams,
        HardenPickleLoad,
        HardenPyyaml,
        HardenRuamel,
        HTTPSConnection,
        JwtDecodeVerify,
        LimitReadline,
        LxmlSafeParserDefaults,
        LxmlSafeParsing,
        OrderImports,
        ProcessSandbox,
        RemoveFutureImports,
        RemoveUnnecessaryFStr,
        RemoveUnusedImports,
        RequestsVerify,
        SecureFlaskCookie,
        SecureRandom,
        TempfileMktemp,
        UpgradeSSLContextMinimumVersion,
        UpgradeSSLContextTLS,
        UrlSandbox,
        UseDefusedXml,
        UseGenerator,
        UseSetLiteral,
        TimezoneAwareDatetime,
        UseWalrusIf,
        WithThreadingLock,
        SQLQueryParameterization,
        SecureFlaskSessionConfig,
        SubprocessShellFalse,
        FileResourceLeak,
        DjangoReceiverOnTop,
        NumpyNanEquality,
        DjangoJsonResponseType,
        FlaskJsonResponseType,
        ExceptionWithoutRaise,
        LiteralOrNewObjectIdentity,
        RemoveModuleGlobal,
        RemoveDebugBreakpoint,
        CombineStartswithEndswith,
        CombineIsinstanceIssubclass,
        FixDeprecatedLoggingWarn,
        FlaskEnableCSRFProtection,
        ReplaceFlaskSendFile,
        FixEmptySequenceComparison,
        RemoveAssertionInPytestRaises,
        FixAssertTuple,
        FixFloatEquality,
        LazyLogging,
        StrConcatInSeqLiteral,
        FixAsyncTaskInstantiation,
        DjangoModelWithoutDunderStr,
        TransformFixHasattrCall,
        FixDataclassDefaults,
        FixMissingSelfOrCls,
        FixMathIsClose,
        BreakOrContinueOutOfLoop,
        DisableGraphQLIntrospection,
        InvertedBooleanCheck,
    ],
)

sonar_registry = CodemodCollection(
    origin="sonar",
    codemods=[
        SonarNumpyNanEquality,
        SonarLiteralOrNewObjectIdentity,
        SonarDjangoReceiverOnTop,
        SonarExceptionWithoutRaise,
        SonarFixAssertTuple,
        SonarRemoveAssertionInPytestRaises,
        SonarFlaskJsonResponseType,
        SonarDjangoJsonResponseType,
        SonarJwtDecodeVerify,
        SonarFixMissingSelfOrCls,
        SonarTempfileMktemp,
        SonarSecureRandom,
        SonarEnableJinja2Autoescape,
        SonarUrlSandbox,
        SonarFixFloatEquality,
        SonarFixMathIsClose,
        SonarSQLParameterization,
        SonarDjangoModelWithoutDunderStr,
        SonarBreakOrContinueOutOfLoop,
        SonarDisableGraphQLIntrospection,
        SonarInvertedBooleanCheck,
        SonarTimezoneAwareDatetime,
        SonarSandboxProcessCreation,
    ],
)

defectdojo_registry = CodemodCollection(
    origin="defectdojo",
    codemods=[
        AvoidInsecureDeserialization,
        DjangoSecureSetCookie,
    ],
)

semgrep_registry = CodemodCollection(
    origin="semgrep",
    codemods=[
        SemgrepUrlSandbox,
        SemgrepEnableJinja2Autoescape,
        SemgrepNoCsrfExempt,
        SemgrepJwtDecodeVerify,
        SemgrepUseDefusedXml,
        SemgrepSandboxProcessCreation,
        SemgrepSubprocessShellFalse,
        SemgrepDjangoSecureSetCookie,
        SemgrepHardenPyyaml,
        SemgrepRsaKeySize,
        SemgrepSQLParameterization,
        SemgrepNanInjection,
    ],
)
