"""C12 end to end: findings for k equally vulnerable sites split across several result files, in every order, through the
real CLI — every open finding must reach its codemod (all k sites fixed), closed/foreign ones must not."""
from __future__ import annotations

import itertools
import json
from concurrent.futures import ThreadPoolExecutor

from harness import core


def sonar_project(rng, k):
    """k sites `v<i> = random.random()` (module level or inside a function); returns files, sites [(file, line, col0, col1)]"""
    files, sites = {}, []
    names = ["a.py", "pkg/b.py"]
    per = {n: [] for n in names}
    for i in range(k):
        per[rng.choice(names)].append(i)
    for n, idxs in per.items():
        lines = ["import random", ""]
        for i in idxs:
            if rng.random() < 0.5:
                lines.append(f"v{i} = random.random()")
                off = len(f"v{i} = ")
            else:
                lines.append(f"def f{i}():")
                lines.append(f"    v{i} = random.random()")
                off = len(f"    v{i} = ")
            sites.append((n, len(lines), off, off + 15))
            lines.append(f"print({i})")
        files[n] = "\n".join(lines) + "\n"
    return files, sites


def sonar_entry(site, status="OPEN", rule="python:S2245", hotspot=False, key=None):
    f, line, c0, c1 = site
    e = {"status": status, "component": f"proj:{f}", "message": "use a secure RNG",
         "textRange": {"startLine": line, "endLine": line, "startOffset": c0, "endOffset": c1}}
    e["ruleKey" if hotspot else "rule"] = rule
    if key:
        e["key"] = key
    return e


def dd_project(rng, k):
    files, sites = {}, []
    lines = ["import pickle", ""]
    for i in range(k):
        lines.append(f"r{i} = pickle.load(open('f{i}', 'rb'))")
        sites.append(("code.py", len(lines)))
        lines.append("")
    files["code.py"] = "\n".join(lines) + "\n"
    return files, sites


def run(ctx: core.Ctx):
    rng = ctx.rng
    plans = []
    n_prog = 2 if ctx.quick() else 8
    # ---- Sonar: issues and hotspots files, any order ------------------------------------------------------------
    for pi in range(n_prog):
        k = rng.choice([3, 4])
        files, sites = sonar_project(rng, k)
        open_sites = set(range(k))
        closed = set()
        if k >= 4:
            closed = {rng.randrange(k)}          # one site only has a RESOLVED finding: must stay
            open_sites -= closed
        m = rng.choice([2, 3])
        buckets = [[] for _ in range(m)]
        for i in sorted(open_sites):
            buckets[rng.randrange(m)].append(i)
        if not any(len(b) for b in buckets[1:]):
            buckets[1].append(buckets[0].pop()) if len(buckets[0]) > 1 else None
        docs = []
        for bi, b in enumerate(buckets):
            doc = {}
            kind = rng.choice(["issues", "hotspots", "both"])
            ents = [sonar_entry(sites[i], status=rng.choice(["OPEN", "TO_REVIEW"]), hotspot=(kind == "hotspots"), key=f"K{pi}-{i}") for i in b]
            decoys = [sonar_entry(sites[i], status="RESOLVED", key=f"R{i}") for i in closed] if bi == 0 else []
            decoys.append(sonar_entry(sites[0], rule="python:S9999", key="foreign-rule"))
            decoys.append({**sonar_entry(sites[0], key="foreign-file"), "component": "proj:not_there.py"})
            if kind == "both":
                half = len(ents) // 2
                doc["issues"] = ents[:half] + decoys
                doc["hotspots"] = [dict(e, ruleKey=e.pop("rule")) if "rule" in e else e for e in [dict(x) for x in ents[half:]]]
            elif kind == "issues":
                doc["issues"] = ents + decoys
            else:
                doc["hotspots"] = ents
                doc["issues"] = decoys
            docs.append(doc)
        orders = list(itertools.permutations(range(m)))
        rng.shuffle(orders)
        for order in orders[: (2 if ctx.quick() else 6)]:
            plans.append(("sonar", files, sites, sorted(open_sites), docs, order))
    # ---- DefectDojo: several findings files ------------------------------------------------------------------------
    for pi in range(1 if ctx.quick() else 4):
        k = rng.choice([3, 4])
        files, sites = dd_project(rng, k)
        title = "python.django.security.audit.avoid-insecure-deserialization.avoid-insecure-deserialization"
        m = 2
        buckets = [[i for i in range(k) if i % 2 == 0], [i for i in range(k) if i % 2 == 1][: k // 2]]
        open_sites = sorted(set(buckets[0]) | set(buckets[1]))
        docs = [{"results": [{"id": 100 * bi + i, "title": title, "file_path": sites[i][0], "line": sites[i][1]} for i in b]
                           + [{"id": 999, "title": "some.other.rule", "file_path": sites[0][0], "line": sites[0][1]}]} for bi, b in enumerate(buckets)]
        for order in [(0, 1), (1, 0)]:
            plans.append(("defectdojo", files, sites, open_sites, docs, order))

    def one(idx_plan):
        idx, (tool, files, sites, open_sites, docs, order) = idx_plan
        root = ctx.scratch / f"c12e2e{idx}" / "proj"
        root.mkdir(parents=True)
        core.write_tree(root, files)
        rdir = root.parent
        paths = []
        for j in order:
            p = rdir / f"results{j}.json"
            p.write_text(json.dumps(docs[j]))
            paths.append(str(p))
        if tool == "sonar":
            # split the list between the two Sonar options as a user would
            cut = max(1, len(paths) - 1)
            args = [str(root), "--sonar-issues-json", ",".join(paths[:cut])]
            if paths[cut:]:
                args += ["--sonar-hotspots-json", ",".join(paths[cut:])]
            args += ["--codemod-include", "sonar:python/secure-random"]
        else:
            args = [str(root), "--defectdojo-findings-json", ",".join(paths), "--codemod-include", "defectdojo:python/avoid-insecure-deserialization"]
        out = rdir / "out.codetf.json"
        r = core.run_cli(args + ["--output", str(out)], timeout=300)
        after = {k: v.decode() for k, v in core.read_tree(root).items()}
        return r, after

    with ThreadPoolExecutor(max_workers=8) as ex:
        results = list(ex.map(one, enumerate(plans)))
    for (tool, files, sites, open_sites, docs, order), (r, after) in zip(plans, results):
        ctx.cli_runs += 1
        ctx.count(f"e2e:{tool}:files{len(docs)}")
        fixed = []
        for i, site in enumerate(sites):
            f, line = site[0], site[1]
            marker = files[f].splitlines()[line - 1].split("=")[0].strip()
            cand = [l.strip() for l in after.get(f, "").splitlines() if l.strip().startswith(marker + " =")]
            token = "secrets.SystemRandom().random()" if tool == "sonar" else "fickling.load"
            fixed.append(any(token in l for l in cand))
        expect = [(i in open_sites) for i in range(len(sites))]
        got = fixed
        ok = r["rc"] == 0 and all((g == e) for g, e in zip(got, expect))
        ctx.case({"tool": tool, "order": order, "docs": docs, "expect_fixed": expect, "got": got, "exit": r["rc"]},
                 nontrivial_key=(tool, json.dumps(docs, sort_keys=True), order), sample=True)
        if not ok:
            lost = [i for i, (g, e) in enumerate(zip(got, expect)) if e and not g]
            extra = [i for i, (g, e) in enumerate(zip(got, expect)) if g and not e]
            cls = "kf_e2e_findings_lost" if lost else ("kf_e2e_closed_or_foreign_applied" if extra else "kf_e2e_run_failed")
            ctx.violation(cls, f"{tool}: with result files in order {order}, sites {lost} with an open finding were not fixed, sites {extra} without one were (exit {r['rc']})",
                          {"e2e": True, "tool": tool, "files": files, "docs": docs, "order": list(order), "sites": sites, "expected_fixed": expect,
                           "observed_fixed": got, "exit": r["rc"], "stderr": r["stderr"][-600:], "after": after})
