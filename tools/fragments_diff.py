# Fragments of Model/Diff.v (C03): exec'd inside tools/translate.py.
TABLE_IMPORTS.append("From CM Require Import Base.Types_Diff.")

shape("diff_py", "src/codemodder/diff.py", ["C03"],
      "diff_py_variant", "diff_py_form", "DiffPyAsWritten",
      ["create_diff", "create_diff_from_tree", "create_diff_and_linenums", "calc_line_num_changes", "difflines_to_str"],
      doc="create_diff / create_diff_from_tree / create_diff_and_linenums / calc_line_num_changes / difflines_to_str")

shape("libcst_apply_diff", "src/codemodder/codemods/libcst_transformer.py", ["C03"],
      "diff_source", "diff_from", "FromFileText",
      ["update_code", "LibcstTransformerPipeline.apply"],
      doc="what LibcstTransformerPipeline.apply diffs (source_tree/tree vs the file text) and writes (update_code(path, tree.code))")

shape("regex_apply_diff", "src/codemodder/codemods/regex_transformer.py", ["C03"],
      "regex_pipeline_io", "lines_pipeline_form", "DiffOfLinesWritesJoined",
      ["RegexTransformerPipeline.apply"],
      doc="RegexTransformerPipeline.apply: create_diff(original_lines, updated_lines); writes ''.join(updated_lines)")

shape("xml_apply_diff", "src/codemodder/codemods/xml_transformer.py", ["C03"],
      "xml_pipeline_io", "lines_pipeline_form", "DiffOfLinesWritesJoined",
      ["XMLTransformerPipeline.apply"],
      doc="XMLTransformerPipeline.apply: create_diff(original_lines, new_lines); writes ''.join(new_lines)")
