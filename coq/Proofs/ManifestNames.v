(** A fresh parse of the rewritten requirements.txt sees the old names followed by the appended ones. *)
From CM Require Import Model.Manifest Spec.ManifestSpec Proofs.ManifestFacts Model.ManifestRun.
From Coq Require Import Lia.

(** the only line boundary of the text is "\n" *)
Definition lf_only (s : str) : bool := forallb (fun c => N.eqb c LF || negb (is_linebreak c)) s.

Lemma lf_only_app a b : lf_only (a ++ b) = lf_only a && lf_only b.
Proof. unfold lf_only. apply forallb_app. Qed.

Lemma is_linebreak_LF : is_linebreak LF = true. Proof. reflexivity. Qed.

(** one step of splitlines on a text whose only boundary is "\n" *)
Lemma splitlines_aux_lf cur r : splitlines_aux cur (LF :: r) = rev cur :: match r with [] => [] | _ => splitlines_aux [] r end.
Proof. cbn [splitlines_aux]. rewrite is_linebreak_LF. destruct r as [|c' r']; [reflexivity|]. reflexivity. Qed.

Lemma splitlines_aux_char cur c r : is_linebreak c = false -> splitlines_aux cur (c :: r) = splitlines_aux (c :: cur) r.
Proof. intros H. cbn [splitlines_aux]. now rewrite H. Qed.

Lemma lf_only_cons c r : lf_only (c :: r) = true -> (c = LF \/ is_linebreak c = false) /\ lf_only r = true.
Proof.
  unfold lf_only. cbn [forallb]. intros H. apply andb_true_iff in H as [Hc Hr]. split; [|exact Hr].
  apply orb_true_iff in Hc as [Hc|Hc]; [left; now apply N.eqb_eq|right; now apply negb_true_iff].
Qed.

Lemma splitlines_aux_nil_nonempty r : r <> [] -> lf_only r = true -> forall cur, splitlines_aux cur r <> [].
Proof.
  induction r as [|c r IH]; [congruence|]. intros _ Hl cur. apply lf_only_cons in Hl as [[->|Hc] Hr].
  - rewrite splitlines_aux_lf. discriminate.
  - rewrite splitlines_aux_char by exact Hc. destruct r as [|c' r']; [cbn; discriminate|]. apply IH; [discriminate|exact Hr].
Qed.

(** splitting a concatenation whose left part ends with "\n" *)
Lemma splitlines_aux_app a : forall cur b, lf_only a = true -> ends_lf a = true ->
  splitlines_aux cur (a ++ b) = splitlines_aux cur a ++ splitlines_aux [] b.
Proof.
  induction a as [|c a IH]; intros cur b Hl He; [discriminate|].
  apply lf_only_cons in Hl as [Hc Hr].
  destruct a as [|c' a'].
  - cbn in He. apply N.eqb_eq in He. subst c. cbn [app]. rewrite !splitlines_aux_lf. destruct b; reflexivity.
  - assert (Ha : c' :: a' <> []) by discriminate. rewrite ends_lf_cons in He by exact Ha.
    change ((c :: c' :: a') ++ b) with (c :: ((c' :: a') ++ b)).
    destruct Hc as [->|Hc].
    + rewrite !splitlines_aux_lf. cbn [app]. f_equal. apply (IH [] b Hr He).
    + rewrite !splitlines_aux_char by exact Hc. apply IH; assumption.
Qed.

(** supplying the missing final newline does not change the lines *)
Lemma splitlines_aux_snoc_lf b : forall cur, lf_only b = true -> ends_lf b = false -> (b <> [] \/ cur <> []) ->
  splitlines_aux cur (b ++ [LF]) = splitlines_aux cur b.
Proof.
  induction b as [|c r IH]; intros cur Hl He Hne.
  - cbn [app]. rewrite splitlines_aux_lf. cbn. destruct cur; [destruct Hne; congruence|reflexivity].
  - apply lf_only_cons in Hl as [Hc Hr]. cbn [app].
    destruct r as [|c' r'].
    + cbn in He. destruct Hc as [->|Hc]; [discriminate|].
      rewrite !splitlines_aux_char by exact Hc. cbn [app]. rewrite splitlines_aux_lf. reflexivity.
    + assert (Ha : c' :: r' <> []) by discriminate. rewrite ends_lf_cons in He by exact Ha.
      destruct Hc as [->|Hc].
      * rewrite !splitlines_aux_lf. cbn [app]. f_equal. apply IH; [exact Hr|exact He|now left].
      * rewrite !splitlines_aux_char by exact Hc. apply IH; [exact Hr|exact He|now left].
Qed.

Lemma splitlines_ensure b : lf_only b = true -> splitlines (ensure_final_lf b) = splitlines b.
Proof.
  intros Hl. unfold ensure_final_lf, splitlines. destruct b as [|c r]; [reflexivity|].
  destruct (ends_lf (c :: r)) eqn:E; [reflexivity|]. apply splitlines_aux_snoc_lf; [exact Hl|exact E|left; discriminate].
Qed.

(** a requirement line without any line boundary, followed by "\n", is one line *)
Lemma splitlines_aux_line l : forall cur, forallb (fun c => negb (is_linebreak c)) l = true ->
  splitlines_aux cur (l ++ [LF]) = [rev cur ++ l].
Proof.
  induction l as [|c r IH]; intros cur H.
  - cbn [app]. rewrite splitlines_aux_lf. now rewrite app_nil_r.
  - cbn [forallb] in H. apply andb_true_iff in H as [Hc Hr]. apply negb_true_iff in Hc.
    cbn [app]. rewrite splitlines_aux_char by exact Hc. rewrite (IH (c :: cur) Hr). cbn [rev]. now rewrite <- app_assoc.
Qed.

Section Names.
  Variable req_cname : str -> option str.
  Variable line_of : str -> str.
  (** the contract of the packaging oracle on the lines the writer appends (tested by harness/c14.py on every dependency
      used): the line has no line boundary, is kept by _clean_lines, and parses back to the name it was written for *)
  Definition line_contract (n : str) : bool :=
    forallb (fun c => negb (is_linebreak c)) (line_of n) && keep_line (line_of n)
    && match req_cname (clean_line (line_of n)) with Some m => str_eqb m n | None => false end.

  Lemma filter_names_app a b : filter_names req_cname (a ++ b) = filter_names req_cname a ++ filter_names req_cname b.
  Proof. induction a as [|l r IH]; [reflexivity|]. cbn [app filter_names]. destruct (req_cname l); cbn; now rewrite IH. Qed.

  Lemma clean_lines_app a b : clean_lines (a ++ b) = clean_lines a ++ clean_lines b.
  Proof. unfold clean_lines. now rewrite filter_app, map_app. Qed.

  Lemma lf_only_line l : forallb (fun c => negb (is_linebreak c)) l = true -> lf_only (l ++ [LF]) = true.
  Proof.
    intros H. rewrite lf_only_app. apply andb_true_iff. split; [|reflexivity].
    unfold lf_only. rewrite forallb_forall in *. intros c Hc. rewrite (H c Hc). apply orb_true_r.
  Qed.

  Lemma names_req_lines ds : forallb line_contract ds = true ->
    lf_only (concat (req_lines (mdeps line_of ds))) = true /\
    filter_names req_cname (clean_lines (splitlines (concat (req_lines (mdeps line_of ds))))) = ds.
  Proof.
    induction ds as [|n r IH]; [split; reflexivity|]. cbn [forallb mdeps map req_lines dline concat].
    fold (mdeps line_of r). fold (req_lines (mdeps line_of r)).
    intros H. apply andb_true_iff in H as [Hn Hr]. destruct (IH Hr) as [I1 I2].
    unfold line_contract in Hn. apply andb_true_iff in Hn as [Hn Hname]. apply andb_true_iff in Hn as [Hnb Hkeep].
    pose proof (lf_only_line _ Hnb) as Hl. split; [rewrite lf_only_app, Hl, I1; reflexivity|].
    unfold splitlines. rewrite splitlines_aux_app; [|exact Hl|apply ends_lf_snoc].
    rewrite (splitlines_aux_line _ [] Hnb). cbn [rev app]. fold (splitlines (concat (req_lines (mdeps line_of r)))).
    unfold clean_lines in *. cbn [List.filter]. rewrite Hkeep. cbn [map filter_names].
    destruct (req_cname (clean_line (line_of n))) as [m|]; [|discriminate]. apply str_eqb_eq in Hname. subst m. now rewrite I2.
  Qed.

  (** names after the write = names before ++ the names written *)
  Lemma names_req_after b ds : b <> [] -> lf_only b = true -> forallb line_contract ds = true ->
    names_req req_cname (ensure_final_lf b ++ concat (req_lines (mdeps line_of ds))) = names_req req_cname b ++ ds.
  Proof.
    intros Hb Hl Hd. unfold names_req, splitlines.
    assert (Hle : lf_only (ensure_final_lf b) = true).
    { unfold ensure_final_lf. destruct b; [reflexivity|]. destruct (ends_lf (n :: b)); [exact Hl|]. rewrite lf_only_app, Hl. reflexivity. }
    rewrite splitlines_aux_app; [|exact Hle|apply ends_lf_ensure, Hb].
    fold (splitlines (ensure_final_lf b)). rewrite (splitlines_ensure b Hl).
    fold (splitlines (concat (req_lines (mdeps line_of ds)))).
    rewrite clean_lines_app, filter_names_app. destruct (names_req_lines ds Hd) as [_ E]. now rewrite E.
  Qed.
End Names.
