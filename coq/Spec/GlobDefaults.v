(** The default selection the property names ("default: Python files"; "default: test, build, virtualenv and VCS
    directories"): the lists of the pinned tree, and what they mean.  The *model* uses the lists extracted from the
    current source (Generated/Tables.v); the *spec oracle* of the correspondence uses these. *)
From Coq Require Import Strings.String.
From CM Require Import Base.GlobLit Model.Glob Spec.GlobSpec.

Definition pinned_included : list str := [lit "**.py"; lit "**/*.py"].
Definition pinned_excluded : list str :=
  [lit "test/**"; lit "tests/**"; lit "**/__test__/**"; lit "**/__tests__/**"; lit "conftest.py"; lit "build/**";
   lit "dist/**"; lit "venv/**"; lit "**/site-packages/**"; lit ".venv/**"; lit ".tox/**"; lit ".nox/**";
   lit ".eggs/**"; lit ".git/**"; lit ".mypy_cache/**"; lit ".pytest_cache/**"; lit ".hypothesis/**"; lit ".coverage*"].
Definition pinned_excluded_shapes : list shape :=
  [Prefix (lit "test/"); Prefix (lit "tests/"); Infix (lit "/__test__/"); Infix (lit "/__tests__/");
   Exact (lit "conftest.py"); Prefix (lit "build/"); Prefix (lit "dist/"); Prefix (lit "venv/");
   Infix (lit "/site-packages/"); Prefix (lit ".venv/"); Prefix (lit ".tox/"); Prefix (lit ".nox/");
   Prefix (lit ".eggs/"); Prefix (lit ".git/"); Prefix (lit ".mypy_cache/"); Prefix (lit ".pytest_cache/");
   Prefix (lit ".hypothesis/"); Prefix (lit ".coverage")].
Definition pinned_defaults : list str * list str := (pinned_included, pinned_excluded).
