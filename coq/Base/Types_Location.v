(** Types of the table values extracted for Model/Location.v (tools/fragments_location.py). *)
From CM Require Export Base.Str.

(** A fragment whose source shape is the one the model was written against.  Any other shape makes the
    translator fail closed (fragment unrecognised, tie broken); the constructor only records that the
    fragment was looked at. *)
Inductive as_read := AsRead.

(** How `get_findings_for_location` decides that a result belongs to a reported line. *)
Inductive attach_rule :=
| ByLineRange.   (* location.start.line <= line_number <= location.end.line, for any location *)

(** What SonarResult.from_result / SemgrepResult.from_sarif put into Finding.id. *)
Inductive finding_id_source :=
| IdIsRuleId        (* Finding(id=rule_id, ...) *)
| IdIsFindingKey.   (* Finding(id=finding_id, ...): the Sonar issue key *)

(** Which node's argument list `on_result_found` of the argument-replacing hardening codemods rebuilds from:
    `self.replace_args(original_node, ...)` (children as they were before the traversal) or `updated_node`. *)
Inductive args_from := FromOriginal | FromUpdated.

(** CodeQLLocation.from_sarif: what the start column is when the SARIF region has no startColumn
    (`region.get("startColumn")` -> None; repaired: `region.get("startColumn", 1)`, the SARIF default). *)
Inductive sc_default := ScNone | ScOne.
