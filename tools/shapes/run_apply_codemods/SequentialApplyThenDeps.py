# src/codemodder/codemodder.py @ HEAD
def apply_codemods(
    context: CodemodExecutionContext,
    codemods_to_run: Sequence[BaseCodemod],
):
    log_section("scanning")

    if not context.files_to_analyze:
        logger.info("no files to scan")
        return

    if not codemods_to_run:
        logger.info("no codemods to run")
        return

    # run codemods one at a time making sure to respect the given sequence
    for codemod in codemods_to_run:
        # NOTE: this may be used as a progress indicator by upstream tools
        logger.info("running codemod %s", codemod.id)
        codemod.apply(context)
        record_dependency_update(context.process_dependencies(codemod.id))
        context.log_changes(codemod.id)
