(** C01 — every file codemodder rewrites is still syntactically valid Python.
    Full statement: for all registered codemods K, alone or in sequence, and all parseable files P:
    compile(P) ok => compile(run_K(P)) ok.
    What is proved here is _partial: (i) the lifting theorem reduces the whole-run claim to the local contract of each
    transformer (any codemod list, any options); (ii) kernel theorems for the rewrite logic that is modelled.  For the
    transformers that are not modelled the local contract is only searched (harness/e2e_props.py). *)
From CM Require Import Model.StrLit Proofs.StrLitFacts Generated.Tables.

(** lazy-logging re-quoting: when every literal piece can stand between double quotes as it is, the rebuilt format
    string is exactly one string literal with the joined content ... *)
Theorem C01_requote_lexes : forall ps, forallb piece_safe ps = true -> lexes_as_one (requote ps) (concat (map piece_text ps)).
Proof. exact requote_lexes. Qed.
Print Assumptions C01_requote_lexes.

(** ... and outside that guard the faithful model produces text that is NOT one literal (finding class kf_lazy_logging_quote). *)
Theorem C01_requote_refuted : forallb piece_safe w_pieces = false /\ ~ exists body, lexes_as_one (requote w_pieces) body.
Proof. exact requote_refuted. Qed.
Print Assumptions C01_requote_refuted.

Example C01_requote_example : forallb piece_safe [Lit [97; 92; 34; 32]%N; Other; Lit [39]%N] = true.
Proof. reflexivity. Qed.

(** * The lifting theorem (coq/Proofs/RunLift.v over the orchestration model coq/Model/Run.v)  -- _partial
    Indexed by the guard table of the libcst pipeline's [apply] (python sources are only handled there): when it returns
    before writing if no change was reported, then for ANY list Ks of libcst codemods, options, project and oracles, and
    any invariant Good on file text preserved by the transformers OF THE RUN (True, or the complement of the finding
    classes such as kf_lazy_logging_quote): if each of them maps Good text that parses to Good text that parses, every
    non-manifest file that was Good and parsed before the run is Good and parses after it.
    _partial: the premise is a contract of the transformers; it is DISCHARGED below for use-set-literal
    ([C01_use_set_literal_run_parses]) and only searched for the transformers that are not modelled. *)
From CM Require Import Model.Run Proofs.RunLift Proofs.LiftKernels.
Theorem C01_whole_run_lift_partial : C01_lift_statement run_tables_v.
Proof. exact C01_lift. Qed.
Print Assumptions C01_whole_run_lift_partial.
(** the statement above is the law, not the vacuous branch: on the tables read from the current source the libcst pipeline
    returns early when the transformer reports no change (if it loses that guard this example stops compiling) *)
Example C01_lift_not_vacuous : libcst_nochange_guarded run_tables_v = true.
Proof. reflexivity. Qed.

(** lifting + kernel, composed into ONE statement: after ANY run of codemods whose transformer is use-set-literal's rewrite
    (Model/Rewrites.v: rw_set_literal, on every expression of the mini-Python AST; trees are printed by MiniPy.pp), every
    non-manifest file that parsed before the run parses after it.  The parser is an abstract function with two contracts:
    it only yields grammatical trees ([wf]), and the printed text of a grammatical tree parses. *)
Theorem C01_use_set_literal_run_parses : C01_set_literal_run_statement run_tables_v.
Proof. exact (C01_set_literal_run_all run_tables_v). Qed.
Print Assumptions C01_use_set_literal_run_parses.
(** the kernel fact it rests on, for EVERY expression (not only the root site) *)
Theorem C01_kernel_set_literal_wf_all : forall e, MiniPy.wf e = true -> MiniPy.wf (Rewrites.rw_set_literal e) = true.
Proof. exact rw_set_literal_wf. Qed.
Print Assumptions C01_kernel_set_literal_wf_all.

(** a file without a changeset is byte-identical, hence still parses *)
Theorem C01_unchanged_files_identical : C03_unchanged_statement.
Proof. exact C03_unchanged. Qed.
Print Assumptions C01_unchanged_files_identical.

(** * Kernel theorems on the mini-Python AST (coq/Model/MiniPy.v, Rewrites.v): [wf e -> wf (rw e)] *)
From CM Require Import Model.MiniPy Model.Rewrites Proofs.RewriteFacts.

(** use-generator: the generator expression as sole argument needs no parentheses of its own *)
Theorem C01_kernel_generator_wf : forall cfg f args, wf (ECall f args) = true -> wf (gen_call cfg f args) = true.
Proof. exact gen_call_wf. Qed.
Print Assumptions C01_kernel_generator_wf.

(** use-set-literal: the empty list becomes [set()], never the dict display [{}]; non-empty lists become set displays *)
Theorem C01_kernel_set_literal_empty :
  rw_set_literal (ECall BSet [EList []]) = ECall BSet [] /\ wf (ECall BSet []) = true /\ wf (ESet []) = false.
Proof. exact RewriteFacts.C01_kernel_set_literal_empty. Qed.
Print Assumptions C01_kernel_set_literal_empty.
Theorem C01_kernel_set_literal_nonempty : forall a es,
  wf (ECall BSet [EList (a :: es)]) = true -> wf (rw_set_literal (ECall BSet [EList (a :: es)])) = true.
Proof. exact RewriteFacts.C01_kernel_set_literal_nonempty. Qed.
Print Assumptions C01_kernel_set_literal_nonempty.

(** invert-boolean-check as pinned (245fc22) printed text that does not parse: the default branch duplicated the
    comparator, and the replacement lost its parentheses; the repaired form (64f90ae) keeps well-formedness on the
    second witness.  (fixed: kf_invert_default_branch, kf_invert_lost_parens) *)
Theorem C01_kernel_invert_pinned_refuted :
  (exists e, wf e = true /\ wf (invert_file Types_Kernels.pinned_invert e) = false) /\
  (exists e, wf e = true /\ wf (invert_file Types_Kernels.pinned_invert e) = false /\
             wf (invert_file Types_Kernels.repaired_invert e) = true).
Proof.
  split.
  - exists w_default_in. destruct C01_kernel_invert_default_refuted as [H1 [H2 _]]. auto.
  - exists w_not_after_cmp. destruct C01_kernel_invert_parens_refuted as [H1 [H2 [_ H4]]]. auto.
Qed.
Print Assumptions C01_kernel_invert_pinned_refuted.

(** fix-empty-sequence-comparison: whatever replaces a matching comparison (`not x`, `bool(x)`, the bare `x`) is well-formed;
    in context the pinned form (245fc22: no parentheses on the new `not`) could print `2 // not v1`.  (fixed by e665074) *)
Theorem C01_kernel_empty_seq_wf : forall cfg in_test e,
  wf e = true -> wf (empty_seq_new cfg (empty_seq_action in_test e) e) = true.
Proof. exact RewriteFacts.C01_kernel_empty_seq_wf. Qed.
Print Assumptions C01_kernel_empty_seq_wf.
Theorem C01_kernel_empty_seq_pinned_refuted :
  wf w_es_floordiv = true /\ wf (empty_seq_file Types_Kernels.pinned_empty_seq false w_es_floordiv) = false /\
  pp (empty_seq_file Types_Kernels.pinned_empty_seq false w_es_floordiv) = w_es_floordiv_text /\
  wf (empty_seq_file Types_Kernels.repaired_empty_seq false w_es_floordiv) = true.
Proof. exact RewriteFacts.C01_kernel_empty_seq_pinned_refuted. Qed.
Print Assumptions C01_kernel_empty_seq_pinned_refuted.
Example C01_kernel_empty_seq_example :
  wf (ECmp true (EName 1%N) [(NotEq, ETuple [])]) = true /\
  empty_seq_new empty_seq_cfg_v (empty_seq_action false (ECmp true (EName 1%N) [(NotEq, ETuple [])])) (ECmp true (EName 1%N) [(NotEq, ETuple [])])
  = ECall BBool [EName 1%N].
Proof. vm_compute. split; reflexivity. Qed.

(** literal-or-new-object-identity only swaps the operator *)
Theorem C01_kernel_identity_wf : forall e e', identity_f e = Some e' -> wf e = true -> wf e' = true.
Proof. exact RewriteFacts.C01_kernel_identity_wf. Qed.
Print Assumptions C01_kernel_identity_wf.
Example C01_kernel_identity_example : identity_f (ECmp true (EName 1%N) [(IsNot, EList [])]) = Some (ECmp true (EName 1%N) [(NotEq, EList [])]).
Proof. reflexivity. Qed.

(** use-set-literal inside an f-string replacement field (outside MiniPy): the replacement's text starts with `{`, which would
    join the field's own brace; the current source keeps them apart (4169bc3), the pinned form did not. *)
Theorem C01_kernel_set_literal_brace_first : forall a es,
  exists rest, pp (rw_set_literal (ECall BSet [EList (a :: es)])) = 123%N :: rest.
Proof. exact RewriteFacts.C01_kernel_set_literal_brace_first. Qed.
Print Assumptions C01_kernel_set_literal_brace_first.
(** the same for invert-boolean-check, where no field keeps them apart (finding kf_invert_fstring_braces): dropping `not `
    in front of a comparison whose leftmost operand is a display leaves `{` as the first character: `not {1} == v0` *)
Definition w_invert_brace : expr := ENot false (ECmp false (ESet [EConst (CInt 1)]) [(Eq, EName 0%N)]).
Example C01_kernel_invert_brace_first :
  hd 0%N (pp w_invert_brace) = 110%N /\
  hd 0%N (pp (invert_file pinned_invert w_invert_brace)) = 123%N /\ hd 0%N (pp (invert_file repaired_invert w_invert_brace)) = 123%N.
Proof. vm_compute. repeat split. Qed.

(** * Whole-tree kernel theorems and their composition with the lifting theorem (Proofs/WholeTree.v, Proofs/LiftWholeTree.v)
    [wfc] = [wf] + "operands of comparisons and of // are atoms or parenthesised" (what a parser yields there).  For every
    expression, every site, nested ones included: *)
From CM Require Import Proofs.WholeTree Proofs.LiftWholeTree.
Theorem C01_kernel_hasattr_wf_all : forall cfg e, wfc e = true -> wfc (rw_hasattr cfg e) = true.
Proof. exact hasattr_wfc. Qed.
Print Assumptions C01_kernel_hasattr_wf_all.
Theorem C01_kernel_identity_wf_all : forall e, wfc e = true -> wfc (rw_identity e) = true.
Proof. exact identity_wfc. Qed.
Print Assumptions C01_kernel_identity_wf_all.
Theorem C01_kernel_empty_seq_wf_all : forall cfg e, es_parens cfg = true -> wfc e = true -> wfc (empty_seq_file cfg false e) = true.
Proof. exact empty_seq_wfc. Qed.
Print Assumptions C01_kernel_empty_seq_wf_all.
Theorem C01_kernel_generator_wf_all : forall cfg e, ug_nested cfg = true -> ug_updated_parts cfg = true ->
  wfc e = true -> wfc (generator_file cfg e) = true.
Proof. exact generator_wfc. Qed.
Print Assumptions C01_kernel_generator_wf_all.
Theorem C01_kernel_set_literal_wfc_all : forall e, wfc e = true -> wfc (rw_set_literal e) = true.
Proof. exact set_literal_wfc. Qed.
Print Assumptions C01_kernel_set_literal_wfc_all.
(** composed with the run: after ANY run of codemods whose transformer is the kernel, every non-manifest file that parsed
    before the run parses after it *)
Theorem C01_fix_hasattr_call_run_parses : C01_kernel_run_statement (rw_hasattr hasattr_cfg_v) run_tables_v.
Proof. exact (C01_kernel_run_all _ (hasattr_wfc hasattr_cfg_v) run_tables_v). Qed.
Print Assumptions C01_fix_hasattr_call_run_parses.
Theorem C01_identity_run_parses : C01_kernel_run_statement rw_identity run_tables_v.
Proof. exact (C01_kernel_run_all _ identity_wfc run_tables_v). Qed.
Print Assumptions C01_identity_run_parses.
Theorem C01_use_generator_run_parses : C01_generator_run_statement generator_cfg_v run_tables_v.
Proof. exact (C01_generator_run_all generator_cfg_v run_tables_v). Qed.
Print Assumptions C01_use_generator_run_parses.
Theorem C01_empty_seq_run_parses : C01_empty_seq_run_statement empty_seq_cfg_v run_tables_v.
Proof. exact (C01_empty_seq_run_all empty_seq_cfg_v run_tables_v). Qed.
Print Assumptions C01_empty_seq_run_parses.
(** on the tables read from the current source these are the laws, not the vacuous branches *)
Example C01_kernel_run_branches :
  ug_nested generator_cfg_v && ug_updated_parts generator_cfg_v = true /\ es_parens empty_seq_cfg_v = true.
Proof. split; reflexivity. Qed.
Example C01_wfc_example : wfc (EFloorDiv (EConst (CInt 2)) (ECmp true (EName 1%N) [(Eq, EList [])])) = true /\
  wfc (EFloorDiv (EConst (CInt 2)) (ECmp false (EName 1%N) [(Eq, EList [])])) = false.
Proof. split; reflexivity. Qed.

(** str-concat-in-sequence-literals (implicitly concatenated strings inside a display become separate elements):
    well-formedness is kept on every expression, in both source forms; composed with the run *)
From CM Require Import Proofs.StrConcatFacts.
Theorem C01_kernel_str_concat_wf_all : forall cfg e, wfc e = true -> wfc (rw_str_concat cfg e) = true.
Proof. exact str_concat_wfc. Qed.
Print Assumptions C01_kernel_str_concat_wf_all.
Theorem C01_str_concat_run_parses : C01_kernel_run_statement (rw_str_concat str_concat_cfg_v) run_tables_v.
Proof. exact (C01_kernel_run_all _ (str_concat_wfc str_concat_cfg_v) run_tables_v). Qed.
Print Assumptions C01_str_concat_run_parses.
Example C01_kernel_str_concat_example :
  wfc w_sc_nested = true /\ rw_str_concat str_concat_cfg_v w_sc_nested <> w_sc_nested.
Proof. vm_compute. split; [reflexivity|discriminate]. Qed.
