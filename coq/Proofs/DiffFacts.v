(** Lemmas about Model/Diff.v: splitting and joining at "\n", decimal print/parse, hunk headers,
    the structured patch round trip and its lifting to diff text. *)
From CM Require Import Spec.DiffSpec.
From Coq Require Import DecimalN DecimalPos.
Local Open Scope N_scope.

(** * split_on *)
Definition free (c : N) (p : str) : bool := forallb (fun x => negb (x =? c)) p.

Lemma split_on_nonnil c t : split_on c t <> [].
Proof.
  destruct t as [|x t]; cbn [split_on]; [discriminate|].
  destruct (x =? c); [discriminate|]. destruct (split_on c t); discriminate.
Qed.

Lemma split_on_app c x y : split_on c (x ++ c :: y) = split_on c x ++ split_on c y.
Proof.
  induction x as [|a x IH]; cbn [app split_on].
  - rewrite N.eqb_refl. reflexivity.
  - destruct (a =? c); [rewrite IH; reflexivity|].
    rewrite IH. destruct (split_on c x) as [|h r] eqn:E; [exfalso; exact (split_on_nonnil _ _ E)|].
    reflexivity.
Qed.

Lemma split_on_free c p : free c p = true -> split_on c p = [p].
Proof.
  induction p as [|a p IH]; cbn [free forallb split_on]; [reflexivity|].
  intros H. apply andb_true_iff in H as [Ha Hp]. apply negb_true_iff in Ha. rewrite Ha.
  fold (free c p) in Hp. rewrite (IH Hp). reflexivity.
Qed.

Lemma split_on_free_app c p y : free c p = true -> split_on c (p ++ c :: y) = p :: split_on c y.
Proof. intros H. rewrite split_on_app, (split_on_free _ _ H). reflexivity. Qed.

Lemma free_app c x y : free c (x ++ y) = free c x && free c y.
Proof. unfold free. apply forallb_app. Qed.

(** * ends_nl / chomp *)
Lemma ends_nl_cons c r : r <> [] -> ends_nl (c :: r) = ends_nl r.
Proof. destruct r; [congruence|reflexivity]. Qed.
Lemma chomp_cons_ne c r : r <> [] -> chomp (c :: r) = c :: chomp r.
Proof. destruct r; [congruence|reflexivity]. Qed.
Lemma chomp_cons c r : c <> 10 -> chomp (c :: r) = c :: chomp r.
Proof.
  intros Hc. destruct r; [|reflexivity]. cbn. apply N.eqb_neq in Hc. rewrite Hc. reflexivity.
Qed.

Lemma chomp_ends l : ends_nl l = true -> l = chomp l ++ [10].
Proof.
  induction l as [|c r IH]; [discriminate|].
  destruct r as [|d r'].
  - cbn. intros H. apply N.eqb_eq in H. subst. reflexivity.
  - intros H. rewrite ends_nl_cons in H by discriminate. rewrite chomp_cons_ne by discriminate.
    cbn [app]. f_equal. exact (IH H).
Qed.
Lemma chomp_noends l : ends_nl l = false -> chomp l = l.
Proof.
  induction l as [|c r IH]; [reflexivity|].
  destruct r as [|d r'].
  - cbn. intros H. rewrite H. reflexivity.
  - intros H. rewrite ends_nl_cons in H by discriminate. rewrite chomp_cons_ne by discriminate.
    f_equal. exact (IH H).
Qed.
Lemma ends_nl_snoc x : ends_nl (x ++ [10]) = true.
Proof.
  induction x as [|c r IH]; [reflexivity|]. cbn [app]. rewrite ends_nl_cons; [exact IH|].
  destruct r; discriminate.
Qed.
Lemma chomp_snoc x : chomp (x ++ [10]) = x.
Proof.
  induction x as [|c r IH]; [reflexivity|]. cbn [app]. rewrite chomp_cons_ne; [f_equal; exact IH|].
  destruct r; discriminate.
Qed.
Lemma ends_nl_app x y : y <> [] -> ends_nl (x ++ y) = ends_nl y.
Proof.
  intros Hy. induction x as [|c r IH]; [reflexivity|]. cbn [app]. rewrite ends_nl_cons; [exact IH|].
  destruct r; destruct y; try discriminate; congruence.
Qed.
Lemma term_line l : (if ends_nl l then l else l ++ [10]) = chomp l ++ [10].
Proof.
  destruct (ends_nl l) eqn:E; [apply chomp_ends; exact E|]. rewrite (chomp_noends _ E). reflexivity.
Qed.

(** * text_lines / unlines *)
Lemma nl_free_is_free l : nl_free l = free 10 l.
Proof. reflexivity. Qed.

Lemma split_unlines L rest :
  forallb nl_free L = true -> split_lf (unlines L ++ rest) = L ++ split_lf rest.
Proof.
  unfold unlines, split_lf. induction L as [|l L IH]; cbn [forallb map concat app]; [reflexivity|].
  intros H. apply andb_true_iff in H as [Hl HL].
  rewrite <- !app_assoc. cbn [app]. rewrite split_on_free_app by exact Hl. rewrite (IH HL). reflexivity.
Qed.

Lemma removelast_snoc {A} (L : list A) x : removelast (L ++ [x]) = L.
Proof. apply removelast_last. Qed.
Lemma last_snoc {A} (L : list A) x d : last (L ++ [x]) d = x.
Proof. apply last_last. Qed.

Lemma text_lines_unlines L : forallb nl_free L = true -> text_lines (unlines L) = L.
Proof.
  intros H. unfold text_lines. rewrite <- (app_nil_r (unlines L)), (split_unlines _ _ H).
  cbn [split_lf split_on]. rewrite last_snoc, removelast_snoc. reflexivity.
Qed.
Lemma text_lines_unlines_last L x :
  forallb nl_free L = true -> nl_free x = true -> x <> [] -> text_lines (unlines L ++ x) = L ++ [x].
Proof.
  intros H Hx Hne. unfold text_lines. rewrite (split_unlines _ _ H).
  unfold split_lf. rewrite (split_on_free _ _ Hx). rewrite last_snoc.
  destruct x; [congruence|reflexivity].
Qed.

(** a list of lines, all but the last terminated (after [term]), joined, splits back into the chomped lines *)
Lemma text_lines_join L x :
  forallb (fun l => nl_free (chomp l)) (L ++ [x]) = true -> x <> [] ->
  text_lines (unlines (map chomp L) ++ x) = map chomp (L ++ [x]).
Proof.
  intros H Hne. rewrite forallb_app in H. apply andb_true_iff in H as [HL Hx].
  cbn [forallb] in Hx. rewrite andb_true_r in Hx.
  assert (HL' : forallb nl_free (map chomp L) = true).
  { rewrite forallb_forall in *. intros y Hy. apply in_map_iff in Hy as [l [<- Hl]]. exact (HL l Hl). }
  rewrite map_app. cbn [map].
  destruct (ends_nl x) eqn:E.
  - rewrite (chomp_ends _ E) at 1.
    replace (unlines (map chomp L) ++ chomp x ++ [10]) with (unlines (map chomp L ++ [chomp x])).
    + apply text_lines_unlines. rewrite forallb_app, HL'. cbn. rewrite Hx. reflexivity.
    + unfold unlines. rewrite map_app, concat_app. cbn. rewrite app_nil_r. reflexivity.
  - rewrite (chomp_noends _ E) in *. apply text_lines_unlines_last; assumption.
Qed.

Lemma concat_term_unlines L :
  concat (map (fun l => if ends_nl l then l else l ++ [10]) L) = unlines (map chomp L).
Proof.
  unfold unlines. rewrite map_map. f_equal. apply map_ext. intros l. apply term_line.
Qed.

Lemma difflines_to_str_snoc L x :
  difflines_to_str (L ++ [x]) = unlines (map chomp L) ++ x.
Proof.
  unfold difflines_to_str. destruct (L ++ [x]) eqn:E; [destruct L; discriminate|]. rewrite <- E.
  rewrite removelast_snoc, last_snoc, concat_term_unlines. reflexivity.
Qed.

Lemma snoc_cases {A} (l : list A) : l = [] \/ exists L x, l = L ++ [x].
Proof.
  destruct l as [|a l]; [left; reflexivity|right].
  exists (removelast (a :: l)), (last (a :: l) a). apply app_removelast_last. discriminate.
Qed.

(** the text of a diff splits back into its lines, chomped *)
Lemma text_lines_difflines DL :
  forallb (fun l => nl_free (chomp l) && negb (is_nil l)) DL = true ->
  text_lines (difflines_to_str DL) = map chomp DL.
Proof.
  intros H. destruct (snoc_cases DL) as [->|[L [x ->]]]; [reflexivity|].
  rewrite difflines_to_str_snoc. apply text_lines_join.
  - rewrite forallb_forall in *. intros l Hl. specialize (H l Hl). apply andb_true_iff in H. tauto.
  - rewrite forallb_forall in H. assert (Hin : In x (L ++ [x])) by (apply in_or_app; right; left; reflexivity).
    specialize (H x Hin).
    apply andb_true_iff in H as [_ H]. destruct x; [discriminate|discriminate].
Qed.

(** the text of an lf-clean file splits back into its lines, chomped *)
Lemma lf_clean_snoc L x :
  lf_clean (L ++ [x]) = true ->
  forallb line_ok L = true /\ line_ok x = true /\ forallb ends_nl L = true.
Proof.
  unfold lf_clean. rewrite removelast_snoc, forallb_app. cbn [forallb]. rewrite andb_true_r.
  intros H. apply andb_true_iff in H as [H1 H2]. apply andb_true_iff in H1 as [H1 H3]. tauto.
Qed.

Lemma concat_terminated L : forallb ends_nl L = true -> concat L = unlines (map chomp L).
Proof.
  intros H. unfold unlines. rewrite map_map.
  assert (E : map (fun l => chomp l ++ [10]) L = L).
  { induction L as [|l L IH]; [reflexivity|]. cbn [forallb map] in *.
    apply andb_true_iff in H as [Hl HL]. rewrite (IH HL). f_equal. symmetry. apply chomp_ends. exact Hl. }
  rewrite E. reflexivity.
Qed.

Lemma text_lines_concat a : lf_clean a = true -> text_lines (concat a) = map chomp a.
Proof.
  intros H. destruct (snoc_cases a) as [->|[L [x ->]]]; [reflexivity|].
  apply lf_clean_snoc in H as [HL [Hx HE]].
  rewrite concat_app. cbn [concat]. rewrite app_nil_r, (concat_terminated _ HE).
  unfold line_ok in *. apply andb_true_iff in Hx as [Hx1 Hx2].
  apply text_lines_join.
  - rewrite forallb_app. cbn [forallb]. rewrite Hx2, andb_true_r.
    rewrite forallb_forall in *. intros l Hl. specialize (HL l Hl). apply andb_true_iff in HL. tauto.
  - destruct x; [discriminate|discriminate].
Qed.

Lemma unlines_chomp_concat b : lf_clean b = true -> unlines (map chomp b) = norm_nl (concat b).
Proof.
  intros H. destruct (snoc_cases b) as [->|[L [x ->]]]; [reflexivity|].
  apply lf_clean_snoc in H as [HL [Hx HE]].
  rewrite concat_app. cbn [concat]. rewrite app_nil_r, (concat_terminated _ HE).
  unfold line_ok in Hx. apply andb_true_iff in Hx as [Hx1 _].
  assert (Hne : x <> []) by (destruct x; [discriminate|discriminate]).
  unfold norm_nl. destruct (unlines (map chomp L) ++ x) eqn:E.
  { apply app_eq_nil in E as [_ E]. congruence. }
  rewrite <- E. rewrite (ends_nl_app _ _ Hne).
  unfold unlines at 1. rewrite map_app, map_app, concat_app. cbn [map concat]. rewrite app_nil_r.
  fold (unlines (map chomp L)). rewrite <- term_line.
  destruct (ends_nl x); [reflexivity|]. rewrite app_assoc. reflexivity.
Qed.

(** * Decimal print / parse *)
Lemma uint_of_codes_of_uint u : uint_of_codes (codes_of_uint u) = Some u.
Proof. induction u; cbn; rewrite ?IHu; reflexivity. Qed.

Definition is_digit (c : N) : bool := (48 <=? c) && (c <=? 57).
Lemma codes_digits u : forallb is_digit (codes_of_uint u) = true.
Proof. induction u; cbn; rewrite ?IHu; reflexivity. Qed.

Lemma to_uint_nonnil n : N.to_uint n <> Decimal.Nil.
Proof. destruct n; cbn; [discriminate|apply Unsigned.to_uint_nonnil]. Qed.

Lemma dec_nonnil n : dec n <> [].
Proof.
  unfold dec. pose proof (to_uint_nonnil n) as H. destruct (N.to_uint n); cbn; congruence.
Qed.

(** the decimal round trip used by the hunk headers *)
Lemma parse_dec_dec n : parse_dec (dec n) = Some n.
Proof.
  unfold parse_dec. pose proof (dec_nonnil n) as H. destruct (dec n) eqn:E; [congruence|].
  rewrite <- E. unfold dec. rewrite uint_of_codes_of_uint. cbn. f_equal. apply DecimalN.Unsigned.of_to.
Qed.

Lemma digits_free c l : is_digit c = false -> forallb is_digit l = true -> free c l = true.
Proof.
  intros Hc H. unfold free. rewrite forallb_forall in *. intros x Hx. specialize (H x Hx).
  apply negb_true_iff. apply N.eqb_neq. intros ->. congruence.
Qed.
Lemma dec_free c n : is_digit c = false -> free c (dec n) = true.
Proof. intros Hc. apply digits_free; [exact Hc|apply codes_digits]. Qed.

(** * Ranges and headers *)
Lemma parse_range_fmt start n :
  exists r, parse_range (fmt_range start (start + n)) = Some r /\ range_index r = Some start /\ snd r = n.
Proof.
  unfold fmt_range. replace (start + n - start) with n by lia.
  destruct (n =? 1) eqn:E1.
  - apply N.eqb_eq in E1. subst n. exists (start + 1, 1). unfold parse_range.
    rewrite (split_on_free 44 _ (dec_free 44 _ eq_refl)), parse_dec_dec. cbn [option_map].
    split; [reflexivity|]. split; [|reflexivity]. unfold range_index.
    destruct (start + 1 =? 0) eqn:E0; [apply N.eqb_eq in E0; lia|]. cbn. f_equal. lia.
  - destruct (n =? 0) eqn:E0.
    + apply N.eqb_eq in E0. subst n. exists (start, 0). unfold parse_range. cbn [app].
      rewrite (split_on_free_app 44 _ _ (dec_free 44 _ eq_refl)), (split_on_free 44 _ (dec_free 44 _ eq_refl)).
      replace (start + 1 - 1) with start by lia. rewrite !parse_dec_dec. repeat split; reflexivity.
    + exists (start + 1, n). unfold parse_range. cbn [app].
      rewrite (split_on_free_app 44 _ _ (dec_free 44 _ eq_refl)), (split_on_free 44 _ (dec_free 44 _ eq_refl)).
      rewrite !parse_dec_dec. split; [reflexivity|]. split; [|reflexivity]. unfold range_index.
      rewrite E0. destruct (start + 1 =? 0) eqn:E; [apply N.eqb_eq in E; lia|]. f_equal. lia.
Qed.

Lemma fmt_range_free c start stop : is_digit c = false -> c <> 44 -> free c (fmt_range start stop) = true.
Proof.
  intros Hc H44. unfold fmt_range. destruct (stop - start =? 1); [apply dec_free; exact Hc|].
  rewrite !free_app, !dec_free by exact Hc. unfold free. cbn [forallb].
  destruct (44 =? c) eqn:E; [apply N.eqb_eq in E; congruence|reflexivity].
Qed.

Definition header_line (pa pb : N) (g : group) : str :=
  [64; 64; 32; 45] ++ fmt_range pa (pa + len (grp_a g)) ++ [32; 43] ++ fmt_range pb (pb + len (grp_b g))
  ++ [32; 64; 64].
Lemma chomp_hunk_header pa pb g : chomp (hunk_header pa pb g) = header_line pa pb g.
Proof.
  unfold hunk_header, header_line.
  replace ([32; 64; 64; 10]) with ([32; 64; 64] ++ [10]) by reflexivity.
  rewrite !app_assoc. apply chomp_snoc.
Qed.

Lemma parse_header_line pa pb g :
  parse_header (header_line pa pb g) = Some (pa, len (grp_a g), pb, len (grp_b g)).
Proof.
  unfold parse_header, header_line.
  destruct (parse_range_fmt pa (len (grp_a g))) as [ra [Ha [Ia La]]].
  destruct (parse_range_fmt pb (len (grp_b g))) as [rb [Hb [Ib Lb]]].
  set (R1 := fmt_range pa (pa + len (grp_a g))) in *. set (R2 := fmt_range pb (pb + len (grp_b g))) in *.
  change ([64; 64; 32; 45] ++ R1 ++ [32; 43] ++ R2 ++ [32; 64; 64])
    with ([64; 64] ++ 32 :: (45 :: R1) ++ 32 :: (43 :: R2) ++ 32 :: [64; 64]).
  rewrite (split_on_free_app 32 [64; 64]) by reflexivity.
  assert (F1 : free 32 (45 :: R1) = true) by (cbn; apply fmt_range_free; [reflexivity|discriminate]).
  assert (F2 : free 32 (43 :: R2) = true) by (cbn; apply fmt_range_free; [reflexivity|discriminate]).
  rewrite (split_on_free_app 32 _ _ F1), (split_on_free_app 32 _ _ F2).
  rewrite (split_on_free 32 [64; 64]) by reflexivity.
  cbn [str_eqb list_eqb N.eqb Pos.eqb andb]. rewrite Ha, Hb, Ia, Ib, La, Lb. reflexivity.
Qed.

(** * Structured hunks of a script (lines seen through [f], here always [chomp]) *)
Section Structured.
  Variable f : str -> str.

  Definition seg_body (s : seg) : list (tag * str) :=
    match s with
    | SEq ls => map (fun l => (TCtx, f l)) ls
    | SRep a b => map (fun l => (TDel, f l)) a ++ map (fun l => (TAdd, f l)) b
    end.
  Definition grp_body (g : group) : list (tag * str) := flat_map seg_body g.

  Fixpoint hunks_of (pa pb : N) (gs : list (group * list str)) : list hunk :=
    match gs with
    | [] => []
    | (g, gap) :: t =>
        {| h_a := pa; h_alen := len (grp_a g); h_b := pb; h_blen := len (grp_b g); h_body := grp_body g |}
        :: hunks_of (pa + len (grp_a g) + len gap) (pb + len (grp_b g) + len gap) t
    end.

  Lemma apply_body_seg s bt rest :
    apply_body (seg_body s ++ bt) (map f (seg_a s) ++ rest) =
    match apply_body bt rest with Some (o, r) => Some (map f (seg_b s) ++ o, r) | None => None end.
  Proof.
    destruct s as [ls | a b]; cbn [seg_body seg_a seg_b].
    - induction ls as [|l ls IH]; cbn [map app apply_body].
      + destruct (apply_body bt rest) as [[o r]|]; reflexivity.
      + rewrite str_eqb_refl, IH. destruct (apply_body bt rest) as [[o r]|]; reflexivity.
    - rewrite <- app_assoc. induction a as [|l a IH]; cbn [map app apply_body].
      + induction b as [|l b IHb]; cbn [map app apply_body].
        * destruct (apply_body bt rest) as [[o r]|]; reflexivity.
        * rewrite IHb. destruct (apply_body bt rest) as [[o r]|]; reflexivity.
      + rewrite str_eqb_refl. exact IH.
  Qed.

  Lemma apply_body_grp g rest :
    apply_body (grp_body g) (map f (grp_a g) ++ rest) = Some (map f (grp_b g), rest).
  Proof.
    induction g as [|s g IH]; [reflexivity|].
    unfold grp_body, grp_a, grp_b in *. cbn [flat_map]. rewrite !map_app, <- app_assoc, apply_body_seg, IH.
    reflexivity.
  Qed.

  Lemma len_app {A} (x y : list A) : len (x ++ y) = len x + len y.
  Proof. unfold len. rewrite app_length. lia. Qed.
  Lemma len_map {A B} (g : A -> B) x : len (map g x) = len x.
  Proof. unfold len. rewrite map_length. reflexivity. Qed.
  Lemma to_nat_len {A} (x : list A) : N.to_nat (len x) = length x.
  Proof. unfold len. apply Nat2N.id. Qed.

  (** every script, applied hunk by hunk with both positions checked, turns a into b *)
  Theorem apply_hunks_script gs gap pos posb :
    apply_hunks (hunks_of (pos + len gap) (posb + len gap) gs) pos posb
                (map f gap ++ map f (rest_a gs))
    = Some (map f gap ++ map f (rest_b gs)).
  Proof.
    revert gap pos posb. induction gs as [|[g gp] gs IH]; intros gap pos posb;
      cbn [hunks_of rest_a rest_b apply_hunks]; [reflexivity|].
    cbn [h_a h_alen h_b h_blen h_body].
    replace (pos + len gap <? pos) with false by (symmetry; apply N.ltb_ge; lia).
    replace (pos + len gap - pos) with (len gap) by lia.
    rewrite N.eqb_refl. cbn [negb].
    replace (len (map f gap ++ map f (grp_a g ++ gp ++ rest_a gs)) <? len gap) with false
      by (symmetry; apply N.ltb_ge; rewrite len_app, len_map; lia).
    rewrite to_nat_len.
    rewrite <- (map_length f gap) at 1. rewrite skipn_app, skipn_all, Nat.sub_diag. cbn [skipn app].
    rewrite !map_app, apply_body_grp.
    rewrite (IH gp (pos + len gap + len (grp_a g)) (posb + len gap + len (grp_b g))).
    rewrite <- (map_length f gap) at 1. rewrite firstn_app, firstn_all, Nat.sub_diag. cbn [firstn].
    rewrite app_nil_r. reflexivity.
  Qed.
End Structured.

(** * From diff lines back to structured hunks *)
Lemma chomp_seg_lines s :
  map chomp (seg_lines s) =
  match s with
  | SEq ls => map (fun l => 32 :: chomp l) ls
  | SRep a b => map (fun l => 45 :: chomp l) a ++ map (fun l => 43 :: chomp l) b
  end.
Proof.
  assert (E : forall p, p <> 10 -> forall ls, map chomp (map (cons p) ls) = map (fun l => p :: chomp l) ls).
  { intros p Hp ls. rewrite map_map. apply map_ext. intros l. apply chomp_cons. exact Hp. }
  destruct s as [ls|a b]; cbn [seg_lines]; rewrite ?map_app, !E by discriminate; reflexivity.
Qed.

Lemma mapM_body_seg s rest :
  mapM parse_body_line (map chomp (seg_lines s) ++ rest) =
  match mapM parse_body_line rest with Some r => Some (seg_body chomp s ++ r) | None => None end.
Proof.
  rewrite chomp_seg_lines. destruct s as [ls|a b]; cbn [seg_body].
  - induction ls as [|l ls IH]; cbn [map app mapM parse_body_line].
    + destruct (mapM parse_body_line rest); reflexivity.
    + rewrite IH. destruct (mapM parse_body_line rest); reflexivity.
  - rewrite <- !app_assoc. induction a as [|l a IH]; cbn [map app mapM parse_body_line].
    + induction b as [|l b IHb]; cbn [map app mapM parse_body_line].
      * destruct (mapM parse_body_line rest); reflexivity.
      * rewrite IHb. destruct (mapM parse_body_line rest); reflexivity.
    + rewrite IH. destruct (mapM parse_body_line rest); reflexivity.
Qed.

Lemma mapM_body_grp g : mapM parse_body_line (map chomp (grp_lines g)) = Some (grp_body chomp g).
Proof.
  induction g as [|s g IH]; [reflexivity|].
  unfold grp_lines, grp_body in *. cbn [flat_map]. rewrite map_app, mapM_body_seg, IH. reflexivity.
Qed.

Lemma body_not_hdr g : forallb (fun l => negb (is_hdr l)) (map chomp (grp_lines g)) = true.
Proof.
  induction g as [|s g IH]; [reflexivity|].
  unfold grp_lines in *. cbn [flat_map]. rewrite map_app, forallb_app, IH, andb_true_r.
  rewrite chomp_seg_lines. destruct s as [ls|a b]; rewrite ?forallb_app; rewrite ?forallb_forall;
    [|apply andb_true_iff; split; rewrite forallb_forall];
    intros x Hx; apply in_map_iff in Hx as [l [<- _]]; reflexivity.
Qed.

Lemma filter_map_const {A} (t : tag) (h : tag -> bool) (k : A -> str) (l : list A) :
  List.filter (fun x : tag * str => h (fst x)) (map (fun y => (t, k y)) l)
  = if h t then map (fun y => (t, k y)) l else [].
Proof.
  induction l as [|y l IH]; cbn [map List.filter fst]; [destruct (h t); reflexivity|].
  rewrite IH. destruct (h t); reflexivity.
Qed.

Lemma count_seg h s :
  count_tag h (seg_body chomp s) =
  match s with
  | SEq ls => if h TCtx then len ls else 0
  | SRep a b => (if h TDel then len a else 0) + (if h TAdd then len b else 0)
  end.
Proof.
  unfold count_tag. destruct s as [ls|a b]; cbn [seg_body].
  - rewrite filter_map_const. destruct (h TCtx); [apply len_map|reflexivity].
  - rewrite filter_app, len_app, !filter_map_const.
    destruct (h TDel), (h TAdd); rewrite ?len_map; reflexivity.
Qed.

Lemma count_grp_a g : count_tag on_a (grp_body chomp g) = len (grp_a g).
Proof.
  induction g as [|s g IH]; [reflexivity|].
  unfold grp_body, grp_a, count_tag in *. cbn [flat_map]. rewrite filter_app, !len_app, IH.
  f_equal. pose proof (count_seg on_a s) as H. unfold count_tag in H. rewrite H.
  destruct s; cbn [on_a seg_a]; lia.
Qed.
Lemma count_grp_b g : count_tag on_b (grp_body chomp g) = len (grp_b g).
Proof.
  induction g as [|s g IH]; [reflexivity|].
  unfold grp_body, grp_b, count_tag in *. cbn [flat_map]. rewrite filter_app, !len_app, IH.
  f_equal. pose proof (count_seg on_b s) as H. unfold count_tag in H. rewrite H.
  destruct s; cbn [on_b seg_b]; lia.
Qed.

Fixpoint raws (pa pb : N) (gs : list (group * list str)) : list (str * list str) :=
  match gs with
  | [] => []
  | (g, gap) :: t =>
      (header_line pa pb g, map chomp (grp_lines g))
      :: raws (pa + len (grp_a g) + len gap) (pb + len (grp_b g) + len gap) t
  end.

Lemma split_hunks_body bl rest :
  forallb (fun l => negb (is_hdr l)) bl = true ->
  split_hunks (bl ++ rest) = (bl ++ fst (split_hunks rest), snd (split_hunks rest)).
Proof.
  induction bl as [|l bl IH]; cbn [forallb app]; intros H.
  - destruct (split_hunks rest); reflexivity.
  - apply andb_true_iff in H as [Hl Hb]. apply negb_true_iff in Hl.
    unfold split_hunks in *. cbn [fold_right]. rewrite Hl, (IH Hb). reflexivity.
Qed.

Lemma split_hunks_lines pa pb gs :
  split_hunks (map chomp (hunks_lines pa pb gs)) = ([], raws pa pb gs).
Proof.
  revert pa pb. induction gs as [|[g gap] gs IH]; intros pa pb; [reflexivity|].
  cbn [hunks_lines raws]. rewrite map_app. cbn [map app]. rewrite chomp_hunk_header.
  unfold split_hunks at 1. cbn [fold_right]. fold (split_hunks (map chomp (grp_lines g) ++
     map chomp (hunks_lines (pa + len (grp_a g) + len gap) (pb + len (grp_b g) + len gap) gs))).
  rewrite (split_hunks_body _ _ (body_not_hdr g)), IH. cbn [fst snd is_hdr header_line app].
  rewrite app_nil_r. reflexivity.
Qed.

Lemma parse_raws pa pb gs : mapM parse_hunk (raws pa pb gs) = Some (hunks_of chomp pa pb gs).
Proof.
  revert pa pb. induction gs as [|[g gap] gs IH]; intros pa pb; [reflexivity|].
  cbn [raws mapM hunks_of]. rewrite IH. unfold parse_hunk. cbn [fst snd].
  rewrite parse_header_line, mapM_body_grp, count_grp_a, count_grp_b, !N.eqb_refl. reflexivity.
Qed.

(** * Every diff line is a well-formed line of the diff text *)
Definition okd (l : str) : bool := nl_free (chomp l) && negb (is_nil l).

Lemma okd_pfx p l : p <> 10 -> line_ok l = true -> okd (p :: l) = true.
Proof.
  intros Hp H. unfold okd, line_ok in *. apply andb_true_iff in H as [_ H].
  rewrite (chomp_cons _ _ Hp). cbn [nl_free forallb is_nil negb]. fold (nl_free (chomp l)). rewrite H.
  apply N.eqb_neq in Hp. rewrite Hp. reflexivity.
Qed.

Lemma okd_map_pfx p ls : p <> 10 -> forallb line_ok ls = true -> forallb okd (map (cons p) ls) = true.
Proof.
  intros Hp H. rewrite forallb_forall in *. intros x Hx. apply in_map_iff in Hx as [l [<- Hl]].
  apply okd_pfx; [exact Hp|exact (H l Hl)].
Qed.

Lemma okd_grp_lines g :
  forallb line_ok (grp_a g) = true -> forallb line_ok (grp_b g) = true -> forallb okd (grp_lines g) = true.
Proof.
  induction g as [|s g IH]; [reflexivity|].
  unfold grp_a, grp_b, grp_lines in *. cbn [flat_map]. rewrite !forallb_app.
  intros Ha Hb. apply andb_true_iff in Ha as [Ha1 Ha2]. apply andb_true_iff in Hb as [Hb1 Hb2].
  rewrite (IH Ha2 Hb2), andb_true_r.
  destruct s as [ls|a b]; cbn [seg_lines seg_a seg_b] in *.
  - apply okd_map_pfx; [discriminate|exact Ha1].
  - rewrite forallb_app, !okd_map_pfx; try discriminate; try assumption. reflexivity.
Qed.

Lemma okd_header pa pb g : okd (hunk_header pa pb g) = true.
Proof.
  unfold okd. rewrite chomp_hunk_header. apply andb_true_iff. split; [|reflexivity].
  rewrite nl_free_is_free. unfold header_line. rewrite !free_app, !fmt_range_free; try reflexivity; discriminate.
Qed.

Lemma okd_hunks_lines pa pb gs :
  forallb line_ok (rest_a gs) = true -> forallb line_ok (rest_b gs) = true ->
  forallb okd (hunks_lines pa pb gs) = true.
Proof.
  revert pa pb. induction gs as [|[g gap] gs IH]; intros pa pb; [reflexivity|].
  cbn [rest_a rest_b hunks_lines]. rewrite !forallb_app. intros Ha Hb.
  apply andb_true_iff in Ha as [Ha1 Ha2]. apply andb_true_iff in Ha2 as [_ Ha2].
  apply andb_true_iff in Hb as [Hb1 Hb2]. apply andb_true_iff in Hb2 as [_ Hb2].
  cbn [forallb]. rewrite okd_header, (okd_grp_lines _ Ha1 Hb1), (IH _ _ Ha2 Hb2). reflexivity.
Qed.

Lemma lf_clean_lines_ok a : lf_clean a = true -> forallb line_ok a = true.
Proof. unfold lf_clean. intros H. apply andb_true_iff in H. tauto. Qed.

Lemma okd_udiff_lines s :
  lf_clean (a_of s) = true -> lf_clean (b_of s) = true -> forallb okd (udiff_lines s) = true.
Proof.
  intros Ha Hb. apply lf_clean_lines_ok in Ha, Hb. unfold a_of, b_of in *. rewrite forallb_app in Ha, Hb.
  apply andb_true_iff in Ha as [_ Ha]. apply andb_true_iff in Hb as [_ Hb].
  unfold udiff_lines. destruct (hunks s) as [|h t] eqn:E; [reflexivity|].
  cbn [forallb]. rewrite (okd_hunks_lines _ _ _ Ha Hb). reflexivity.
Qed.

(** * The text-level round trip *)
Theorem patch_roundtrip s :
  lf_clean (a_of s) = true -> lf_clean (b_of s) = true ->
  apply_udiff (create_diff s) (concat (a_of s)) = Some (norm_nl (concat (b_of s))).
Proof.
  intros Ha Hb. unfold apply_udiff, create_diff.
  rewrite (text_lines_difflines _ (okd_udiff_lines s Ha Hb)), (text_lines_concat _ Ha).
  rewrite <- (unlines_chomp_concat _ Hb).
  destruct s as [g0 gs]. unfold a_of, b_of, udiff_lines. cbn [gap0 hunks].
  destruct gs as [|h t].
  - cbn [map parse_diff apply_hunks rest_a rest_b]. reflexivity.
  - set (gs := h :: t). cbn [map]. unfold parse_diff.
    replace (startswith [45; 45; 45; 32] (chomp hdr_from) && startswith [43; 43; 43; 32] (chomp hdr_to))
      with true by reflexivity.
    rewrite split_hunks_lines, parse_raws, !map_app.
    rewrite <- (N.add_0_l (len g0)). rewrite apply_hunks_script. reflexivity.
Qed.

(** * The applier does not see whether the old text's last line is terminated, and always terminates its output *)
Lemma last_split_nil c x : last (split_on c x) [] = [] -> x = [] \/ exists x', x = x' ++ [c].
Proof.
  induction x as [|a x IH]; [left; reflexivity|]. right. cbn [split_on] in H |- *.
  destruct (a =? c) eqn:E.
  - apply N.eqb_eq in E. subst a.
    destruct (split_on c x) as [|h r] eqn:Es; [exfalso; exact (split_on_nonnil _ _ Es)|].
    change (last ([] :: h :: r) []) with (last (h :: r) (@nil N)) in H.
    destruct (IH H) as [->|[x' ->]]; [exists []; reflexivity|exists (c :: x'); reflexivity].
  - destruct (split_on c x) as [|h r] eqn:Es; [exfalso; exact (split_on_nonnil _ _ Es)|].
    destruct r as [|h2 r2]; [discriminate H|].
    change (last ((a :: h) :: h2 :: r2) []) with (last (h :: h2 :: r2) (@nil N)) in H.
    destruct (IH H) as [->|[x' ->]]; [discriminate Es|exists (a :: x'); reflexivity].
Qed.

Lemma text_lines_norm_nl x : text_lines (norm_nl x) = text_lines x.
Proof.
  unfold norm_nl. destruct x as [|a x']; [reflexivity|]. set (x := a :: x').
  destruct (ends_nl x) eqn:E; [reflexivity|].
  unfold text_lines, split_lf. rewrite split_on_app. cbn [split_on].
  rewrite last_snoc, removelast_snoc. cbn [is_nil].
  destruct (last (split_on 10 x) []) eqn:El; [|reflexivity].
  destruct (last_split_nil _ _ El) as [H|[x'' H]]; [discriminate H|].
  rewrite H, ends_nl_snoc in E. discriminate E.
Qed.

Lemma apply_udiff_norm_nl d x : apply_udiff d (norm_nl x) = apply_udiff d x.
Proof. unfold apply_udiff. rewrite text_lines_norm_nl. reflexivity. Qed.

Lemma norm_nl_snoc y : norm_nl (y ++ [10]) = y ++ [10].
Proof.
  unfold norm_nl. pose proof (ends_nl_snoc y) as H. destruct (y ++ [10]) eqn:E.
  - destruct y; discriminate E.
  - rewrite H. reflexivity.
Qed.
Lemma norm_nl_unlines ls : norm_nl (unlines ls) = unlines ls.
Proof.
  destruct (snoc_cases ls) as [->|[L [x ->]]]; [reflexivity|].
  unfold unlines. rewrite map_app, concat_app. cbn [map concat]. rewrite app_nil_r, app_assoc.
  apply norm_nl_snoc.
Qed.
Lemma apply_udiff_normal d x r : apply_udiff d x = Some r -> norm_nl r = r.
Proof.
  unfold apply_udiff. destruct (parse_diff (text_lines d)); [|discriminate].
  destruct (apply_hunks l 0 0 (text_lines x)); [|discriminate]. intros H. injection H as <-. apply norm_nl_unlines.
Qed.
Lemma norm_nl_idem x : norm_nl (norm_nl x) = norm_nl x.
Proof.
  destruct x as [|a x']; [reflexivity|]. destruct (ends_nl (a :: x')) eqn:E.
  - assert (H : norm_nl (a :: x') = a :: x') by (unfold norm_nl; rewrite E; reflexivity).
    rewrite H. exact H.
  - assert (H : norm_nl (a :: x') = (a :: x') ++ [10]) by (unfold norm_nl; rewrite E; reflexivity).
    rewrite H. apply norm_nl_snoc.
Qed.

(** the empty diff is the identity (up to the final newline) *)
Lemma unlines_text_lines x : unlines (text_lines x) = norm_nl x.
Proof.
  assert (J : forall t, unlines (split_lf t) = t ++ [10]).
  { unfold unlines, split_lf. induction t as [|c t IH]; [reflexivity|]. cbn [split_on].
    destruct (c =? 10) eqn:E.
    - apply N.eqb_eq in E. subst c. cbn [map concat app]. rewrite IH. reflexivity.
    - destruct (split_on 10 t) as [|h r] eqn:Es; [exfalso; exact (split_on_nonnil _ _ Es)|].
      cbn [map concat app] in *. rewrite IH. reflexivity. }
  rewrite <- text_lines_norm_nl. unfold norm_nl. destruct x as [|a x']; [reflexivity|]. set (x := a :: x').
  assert (K : forall y, text_lines (y ++ [10]) = split_lf y).
  { intros y. unfold text_lines, split_lf. rewrite split_on_app. cbn [split_on].
    rewrite last_snoc, removelast_snoc. reflexivity. }
  destruct (ends_nl x) eqn:E.
  - rewrite (chomp_ends _ E) at 1. rewrite K, J. symmetry. apply chomp_ends. exact E.
  - rewrite K, J. reflexivity.
Qed.
Lemma apply_empty_diff x : apply_udiff [] x = Some (norm_nl x).
Proof. unfold apply_udiff. cbn. rewrite unlines_text_lines. reflexivity. Qed.

(** * The diff is empty exactly when the script has no group *)
Lemma create_diff_nil_iff s : create_diff s = [] <-> hunks s = [].
Proof.
  unfold create_diff, udiff_lines. split.
  - destruct (hunks s) as [|h t]; [reflexivity|]. intros H. exfalso.
    set (DL := hunks_lines (len (gap0 s)) (len (gap0 s)) (h :: t)) in *.
    unfold difflines_to_str in H. cbn [removelast] in H.
    destruct (hdr_to :: DL) eqn:E; [discriminate E|]. cbn [map concat] in H. discriminate H.
  - intros ->. reflexivity.
Qed.
Lemma no_group_same_text s : hunks s = [] -> a_of s = b_of s.
Proof. unfold a_of, b_of. intros ->. reflexivity. Qed.
