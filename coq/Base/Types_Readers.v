From CM Require Export Base.Str.
(** core_codemods/sonar/results.py: the expression selecting the entries of a Sonar document.
    [IssuesOrElse]: `data.get("issues") or [] + data.get("hotspots") or []`  (parses as issues or ([]+hotspots) or [])
    [IssuesPlusHotspots]: `(data.get("issues") or []) + (data.get("hotspots") or [])`
    [IssuesPlusHotspotsPerEntry]: the same iterable, and the loop body (status test + from_result + add_result) is
    wrapped in its own try/except: a malformed entry is skipped instead of discarding the whole file *)
Inductive sonar_select := IssuesOrElse | IssuesPlusHotspots | IssuesPlusHotspotsPerEntry.
(** core_codemods/defectdojo/results.py: only the pinned shape is known. *)
Inductive dd_shape := DDAsPinned.
(** codemodder/sarifs.py: detect_sarif_tools wraps each run's detection in its own try/except (only the pinned shape is known). *)
Inductive sarif_detect_form := PerRunTry.
Inductive sarif_detector_form := NameContainsSemgrepLower | NameContainsCodeQL.
