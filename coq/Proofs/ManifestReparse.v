(** [stores_reparse] (premise H_stores_reparse of C09_batch_eq_chain_conditional) from a model of the manifest parsers
    and writers.  Generic part: the package stores of a fresh invocation are read off the manifests ([pstores_of]); if
    every manifest the parser offers can be written by its writer, and a fresh parse of the rewritten manifest sees the
    old names followed by the written ones, then after a single-codemod run the in-memory stores are what a fresh parse
    of the final file system gives.  (Both conditions are necessary: `DependencyWriter.add` records the names in the
    store before and regardless of the write, so a store whose writer answers None holds names its file lacks -
    C14_later_codemod_notice_refuted; and in a dry run nothing is written at all.) *)
From CM Require Import Base.Dict Model.Run Spec.RunSpec Proofs.RunFacts Proofs.RunWritesFacts Proofs.C09Facts.
From Coq Require Import Lia.

Section Reparse.
  Variable tb : run_tables.
  Variable tree : Type.
  Variable parse : pipe_kind -> bytes -> option tree.
  Variable code : pipe_kind -> tree -> bytes.
  Variable T : codemod -> tree -> option (list finding) -> outcome tree.
  Variable S : codemod -> path -> bytes -> list finding.
  Variable R : codemod -> list (path * list finding).
  Variable diff : bytes -> bytes -> str.
  Variable W : skind -> option bytes -> list dep -> option (bytes * str * list change).
  Variable fsel : codemod -> path -> bool.
  Variable cfg : config.

  (** the manifests of the project (kind, path), in the order the parsers offer them *)
  Variable ms : list (skind * path).
  (** does the parser offer a store for this content (and can the model's writer handle it) / the names it holds *)
  Variable covers : skind -> bytes -> bool.
  Variable names_of : skind -> bytes -> list dep.

  Fixpoint pstores_of (l : list (skind * path)) (fs : fsys) : list store :=
    match l with
    | [] => []
    | (k, p) :: r =>
        match lookup fs p with
        | Some b => if covers k b then {| st_kind := k; st_path := p; st_deps := names_of k b |} :: pstores_of r fs
                    else pstores_of r fs
        | None => pstores_of r fs
        end
    end.

  Hypothesis Hdry : dry_run cfg = false.
  Hypothesis Hnd : NoDup (map snd ms).
  Hypothesis Hscope : forall K p, In p (map snd ms) -> ~ In p (scope fsel cfg K).
  Hypothesis Hwritable : forall k b ds, covers k b = true -> ds <> [] -> exists r, W k (Some b) ds = Some r.
  Hypothesis Hnames : forall k b ds b' d chs, covers k b = true -> W k (Some b) ds = Some (b', d, chs) ->
    covers k b' = true /\ names_of k b' = names_of k b ++ ds.

  Lemma pstores_of_paths l fs q : In q (map st_path (pstores_of l fs)) -> In q (map snd l).
  Proof.
    induction l as [|[k p] r IH]; [intros []|]. cbn [pstores_of map snd].
    destruct (lookup fs p) as [b|]; [destruct (covers k b)|]; cbn [map st_path]; intros H; try (right; now apply IH).
    destruct H as [<-|H]; [now left|right; now apply IH].
  Qed.

  Lemma pstores_of_agree l fs fs2 : (forall q, In q (map snd l) -> lookup fs2 q = lookup fs q) -> pstores_of l fs2 = pstores_of l fs.
  Proof.
    induction l as [|[k p] r IH]; intros H; [reflexivity|]. cbn [pstores_of].
    rewrite (H p (or_introl eq_refl)), IH; [reflexivity|]. intros q Hq. apply H. now right.
  Qed.

  Lemma try_stores_reparse ds : forall l fs, NoDup (map snd l) ->
    fst (fst (try_stores tb W cfg ds fs (pstores_of l fs))) = pstores_of l (snd (fst (try_stores tb W cfg ds fs (pstores_of l fs)))).
  Proof.
    induction l as [|[k p] r IH]; intros fs Hn; [reflexivity|].
    cbn [map snd] in Hn. inversion Hn as [|? ? Hnotin Hn']; subst.
    (* writes of the remaining stores do not touch p *)
    assert (Hp : lookup (snd (fst (try_stores tb W cfg ds fs (pstores_of r fs)))) p = lookup fs p).
    { destruct (try_stores_frame tb W cfg ds (pstores_of r fs) fs) as [Ha _]. apply Ha.
      intros Hin. apply Hnotin. eapply pstores_of_paths, Hin. }
    cbn [pstores_of].
    destruct (lookup fs p) as [b|] eqn:El.
    - destruct (covers k b) eqn:Ec.
      + cbn [try_stores]. unfold attempt. cbn [st_kind st_path st_deps].
        set (st := {| st_kind := k; st_path := p; st_deps := names_of k b |}).
        destruct (new_deps st ds) as [|n0 nr] eqn:En.
        * (* nothing new for this store: it answers None, the loop goes on *)
          cbn [fst snd]. rewrite (IH fs Hn'). cbn [pstores_of]. rewrite Hp, Ec.
          unfold store_added. rewrite En, app_nil_r. reflexivity.
        * (* the first store with something new: its writer answers *)
          rewrite El. destruct (Hwritable k b (n0 :: nr) Ec ltac:(discriminate)) as [[[b' d] chs] EW]. rewrite EW.
          cbn [fst snd]. rewrite Hdry, andb_false_r. cbn [pstores_of]. rewrite lookup_fwrite_same.
          destruct (Hnames k b (n0 :: nr) b' d chs Ec EW) as [Ec' En'].
          rewrite Ec', En'. unfold store_added. rewrite En. cbn [st_kind st_path st_deps]. f_equal.
          symmetry. apply pstores_of_agree. intros q Hq. apply RunFacts.lookup_fwrite_other. intros ->. contradiction.
      + rewrite (IH fs Hn'). cbn [pstores_of]. rewrite Hp, Ec. reflexivity.
    - rewrite (IH fs Hn'). cbn [pstores_of]. rewrite Hp. reflexivity.
  Qed.

  Theorem stores_reparse_of : forall Ks, stores_reparse tb tree parse code T S R diff W fsel cfg (pstores_of ms) Ks.
  Proof.
    intros Ks K fs t _ Hrun. unfold run in Hrun.
    destruct (all_files cfg) as [|f0 fl]; [injection Hrun as <-; reflexivity|].
    cbn [apply_codemods] in Hrun.
    set (pre := prefilter_of S cfg [K] fs) in *.
    destruct (apply_codemod_frame tb tree parse code T S R diff fsel cfg pre K (init_state fs (pstores_of ms fs))) as [Hfs Hst].
    destruct (apply_codemod tb tree parse code T S R diff fsel cfg pre K (init_state fs (pstores_of ms fs))) as [s1|s1] eqn:Ea;
      [|discriminate]. injection Hrun as <-. cbn [rr_state init_state s_fs s_stores] in Hfs, Hst.
    (* the codemod's own writes do not touch a manifest *)
    assert (Hre : pstores_of ms (s_fs s1) = pstores_of ms fs).
    { apply pstores_of_agree. intros q Hq. apply Hfs. now apply Hscope. }
    unfold process_dependencies. destruct (dgetl (cid K) (s_deps s1)) as [|d0 ds0]; [rewrite Hst, Hre; reflexivity|].
    destruct (s_stores s1) as [|st0 sts] eqn:Es.
    - cbn [s_stores s_fs]. rewrite Hre, <- Hst. reflexivity.
    - rewrite Hst, <- Hre.
      pose proof (try_stores_reparse (d0 :: ds0) ms (s_fs s1) Hnd) as Ht.
      destruct (snd (try_stores tb W cfg (d0 :: ds0) (s_fs s1) (pstores_of ms (s_fs s1)))); cbn [s_stores s_fs]; exact Ht.
  Qed.
End Reparse.
