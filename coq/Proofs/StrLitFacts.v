From CM Require Import Model.StrLit.

Lemma lex_dq_safe body : forall rest, dq_safe body = true -> lex_dq (body ++ DQ :: rest) = Some (body, rest).
Proof.
  (* strong induction through the two-step escape case *)
  assert (H : forall n body, length body <= n -> forall rest, dq_safe body = true -> lex_dq (body ++ DQ :: rest) = Some (body, rest)).
  { induction n as [|n IH]; intros b Hl rest Hs.
    - destruct b; [|simpl in Hl; lia]. simpl. reflexivity.
    - destruct b as [|c r]; [reflexivity|].
      cbn [dq_safe] in Hs. cbn [app lex_dq].
      destruct (N.eqb c DQ); [discriminate|].
      destruct (N.eqb c NL || N.eqb c CR); [discriminate|].
      destruct (N.eqb c BS).
      + destruct r as [|d r']; [discriminate|]. cbn [app].
        rewrite (IH r'); [reflexivity| simpl in Hl; lia | exact Hs].
      + rewrite (IH r); [reflexivity| simpl in Hl; lia | exact Hs]. }
  intros rest Hs. exact (H (length body) body (le_n _) rest Hs).
Qed.

Lemma dq_safe_app a : forall b, dq_safe a = true -> dq_safe b = true -> dq_safe (a ++ b) = true.
Proof.
  assert (H : forall n a, length a <= n -> forall b, dq_safe a = true -> dq_safe b = true -> dq_safe (a ++ b) = true).
  { induction n as [|n IH]; intros x Hl b Ha Hb.
    - destruct x; [exact Hb|simpl in Hl; lia].
    - destruct x as [|c r]; [exact Hb|].
      cbn [dq_safe] in Ha. cbn [app dq_safe].
      destruct (N.eqb c DQ); [discriminate|].
      destruct (N.eqb c NL || N.eqb c CR); [discriminate|].
      destruct (N.eqb c BS).
      + destruct r as [|d r']; [discriminate|]. cbn [app]. apply IH; [simpl in Hl; lia|exact Ha|exact Hb].
      + apply IH; [simpl in Hl; lia|exact Ha|exact Hb]. }
  intros b. exact (H (length a) a (le_n _) b).
Qed.

Lemma dq_safe_concat ps : forallb piece_safe ps = true -> dq_safe (concat (map piece_text ps)) = true.
Proof.
  induction ps as [|p ps IH]; simpl; intros H; [reflexivity|].
  apply andb_prop in H. destruct H as [Hp Hps].
  apply dq_safe_app; [|now apply IH].
  destruct p; [exact Hp|reflexivity].
Qed.

Theorem requote_lexes ps : forallb piece_safe ps = true -> lexes_as_one (requote ps) (concat (map piece_text ps)).
Proof.
  intros H. unfold requote, lexes_as_one. split; [reflexivity|].
  apply lex_dq_safe. now apply dq_safe_concat.
Qed.

(** logging.info('a''b ' + x): the single-quoted literal's raw value contains a double quote *)
Definition w_pieces : list piece := [Lit [97; 34; 98; 32]%N; Other].
Lemma requote_refuted : forallb piece_safe w_pieces = false /\ ~ exists body, lexes_as_one (requote w_pieces) body.
Proof.
  split; [reflexivity|]. intros [body [_ H]]. vm_compute in H. discriminate.
Qed.
