from typing import Optional, Tuple

import libcst as cst
from libcst.codemod import CodemodContext, ContextAwareVisitor

from codemodder.codemods.base_visitor import UtilsMixin
from codemodder.codemods.libcst_transformer import (
    LibcstResultTransformer,
    LibcstTransformerPipeline,
)
from codemodder.codemods.utils_mixin import NameAndAncestorResolutionMixin
from codemodder.file_context import FileContext
from codemodder.result import Result
from core_codemods.api import Metadata, Reference, ReviewGuidance
from core_codemods.api.core_codemod import CoreCodemod


class FlaskJsonResponseTypeTransformer(
    LibcstResultTransformer, NameAndAncestorResolutionMixin
):
    change_description = "Sets `mimetype` to `application/json`."

    content_type_key = "Content-Type"
    json_content_type = "application/json"

    def transform_module_impl(self, tree: cst.Module) -> cst.Module:
        visitor = FlaskJsonResponseTypeVisitor(
            self.context, file_context=self.file_context, results=self.results
        )
        tree.visit(visitor)
        if visitor.node_and_replacement:
            node, replacement = visitor.node_and_replacement
            self.report_change(node)
            return tree.deep_replace(node, replacement)
        return tree


class FlaskJsonResponseTypeVisitor(
    ContextAwareVisitor, NameAndAncestorResolutionMixin, UtilsMixin
):
    content_type_key = "Content-Type"
    json_content_type = "application/json"

    def __init__(
        self,
        context: CodemodContext,
        file_context: FileContext,
        results: list[Result] | None,
    ) -> None:
        self.node_and_replacement: Optional[Tuple[cst.CSTNode, cst.CSTNode]] = None
        self.file_context = file_context
        ContextAwareVisitor.__init__(self, context)
        UtilsMixin.__init__(
            self,
            results=results,
            line_include=file_context.line_include,
            line_exclude=file_context.line_exclude,
        )

    def leave_Return(self, original_node: cst.Return):
        if original_node.value and self.node_is_selected(original_node.value):
            # is inside a function def with a route decorator
            maybe_function_def = self.find_immediate_function_def(original_node)
            maybe_has_decorator = (
                self._has_route_decorator(maybe_function_def)
                if maybe_function_def
                else None
            )
            if maybe_has_decorator:
                # json.dumps(...)
                if self._is_json_dumps_call(original_node.value):
                    self.node_and_replacement = (
                        original_node.value,
                        self._fix_json_dumps(original_node.value),
                    )
                # make_response(...)
                elif maybe_make_response := self._is_make_response_with_json_with_unset_ct(
                    original_node.value
                ):
                    if maybe_dict := self._has_dict_with_headers_mr_call(
                        maybe_make_response
                    ):
                        if not self._has_content_type_key(maybe_dict):
                            self.node_and_replacement = (
                                maybe_dict,
                                self._fix_dict(maybe_dict),
                            )
                    else:
                        first_arg = maybe_make_response.args[0].value
                        match first_arg:
                            case cst.Tuple():
                                self.node_and_replacement = (
                                    first_arg,
                                    self._fix_tuple(first_arg),
                                )
                            case _:
                                self.node_and_replacement = (
                                    maybe_make_response,
                                    self._fix_make_response(maybe_make_response),
                                )

                # return (...,...)
                elif maybe_tuple := self._is_tuple_with_json_string_response(
                    original_node.value
                ):
                    if maybe_dict := self._has_dict_with_headers(maybe_tuple):
                        if not self._has_content_type_key(maybe_dict):
                            self.node_and_replacement = (
                                maybe_dict,
                                self._fix_dict(maybe_dict),
                            )
                    else:
                        self.node_and_replacement = (
                            maybe_tuple,
                            self._fix_tuple(maybe_tuple),
                        )

    def _is_tuple_with_json_string_response(
        self, node: cst.CSTNode
    ) -> Optional[cst.Tuple]:
        match node:
            case cst.Tuple():
                elements = node.elements
                first = elements[0].value
                if self._is_json_dumps_call(
                    first
                ) or self._is_make_response_with_json_with_unset_ct(first):
                    return node
        return None

    def _has_dict_with_headers(self, node: cst.Tuple) -> Optional[cst.Dict]:
        elements = list(node.elements)
        last = elements[-1].value
        last = self.resolve_expression(last)
        match last:
            case cst.Dict():
                return last
        return None

    def _build_dict(self) -> cst.Dict:
        return cst.Dict(
            [
                cst.DictElement(
                    cst.SimpleString(f"'{self.content_type_key}'"),
                    cst.SimpleString(f"'{self.json_content_type}'"),
                )
            ]
        )

    def _has_route_decorator(self, node: cst.FunctionDef) -> bool:
        # We cannot guarantee that this decorator originates from a flask app object
        # thus we just check for the name
        for decorator in node.decorators:
            match decorator.decorator:
                case cst.Call(func=cst.Attribute() as func):
                    if func.attr.value == "route":
                        return True
        return False

    def _is_json_dumps_call(self, node: cst.BaseExpression) -> Optional[cst.Call]:
        expr = self.resolve_expression(node)
        match expr:
            case cst.Call():
                if self.find_base_name(expr) == "json.dumps":
                    return expr
        return None

    def _has_content_type_set(self, node: cst.BaseExpression) -> bool:
        if not isinstance(node, cst.Name):
            return False
        for access in self.find_accesses(node):
            maybe_attr = self.is_attribute_value(access.node)
            # is headers attribute? e.g. resp.headers
            match maybe_attr:
                case cst.Attribute(attr=cst.Name(value="headers")):
                    pass
                case _:
                    return False
            maybe_subscript = (
                self.is_subscript_value(maybe_attr) if maybe_attr else None
            )
            if (
                self.is_target_of_assignment(maybe_subscript)
                if maybe_subscript
                else None
            ):
                # is subscript content-type?
                match maybe_subscript:
                    case cst.Subscript(
                        slice=[
                            cst.SubscriptElement(
                                slice=cst.Index(value=cst.SimpleString() as index)
                            )
                        ]
                    ):
                        if index.raw_value == "Content-Type":
                            return True
        return False

    def _is_make_response_with_json_with_unset_ct(
        self, node: cst.BaseExpression
    ) -> Optional[cst.Call]:
        if self._has_content_type_set(node):
            return None
        expr = self.resolve_expression(node)
        match expr:
            case cst.Call(args=[cst.Arg(first_arg), *_]):
                if self.find_base_name(expr) != "flask.make_response":
                    return None
                match first_arg:
                    case cst.Tuple():
                        first_arg = first_arg.elements[0].value
                if first_arg and self._is_json_dumps_call(first_arg):
                    return expr
        return None

    def _has_dict_with_headers_mr_call(self, call: cst.Call) -> Optional[cst.Dict]:
        first_arg = call.args[0].value
        match first_arg:
            case cst.Tuple():
                return self._has_dict_with_headers(first_arg)
        last = call.args[-1].value
        last = self.resolve_expression(last)
        match last:
            case cst.Dict():
                return last
        return None

    def _has_content_type_key(self, dict_expr: cst.Dict):
        for element in dict_expr.elements:
            match element:
                case cst.StarredDictElement():
                    return True
                case cst.DictElement(key=key):
                    match key:
                        case cst.SimpleString():
                            if key.raw_value == self.content_type_key:
                                return True
                        # it may use variable or other expreesions that resolves to Content-Type
                        case _:
                            return True
        return False

    def _add_key_value(
        self, dict_expr: cst.Dict, key: cst.BaseExpression, value: cst.BaseExpression
    ) -> cst.Dict:
        elements = list(dict_expr.elements)
        elements.append(cst.DictElement(key, value))
        return dict_expr.with_changes(elements=elements)

    def _fix_dict(self, dict_expr: cst.Dict) -> cst.Dict:
        return self._add_key_value(
            dict_expr,
            cst.SimpleString(f"'{self.content_type_key}'"),
            cst.SimpleString(f"'{self.json_content_type}'"),
        )

    def _fix_tuple(self, tuple_expr: cst.Tuple) -> cst.Tuple:
        elements = list(tuple_expr.elements)
        elements.append(cst.Element(self._build_dict()))
        return tuple_expr.with_changes(elements=elements)

    def _fix_make_response(self, call: cst.Call) -> cst.Call:
        args = list(call.args)
        args.append(cst.Arg(self._build_dict()))
        return call.with_changes(args=args)

    def _fix_json_dumps(self, node: cst.BaseExpression) -> cst.Tuple:
        return cst.Tuple([cst.Element(node), cst.Element(self._build_dict())])


FlaskJsonResponseType = CoreCodemod(
    metadata=Metadata(
        name="flask-json-response-type",
        summary="Set content type to `application/json` for `flask.make_response` with JSON data",
        review_guidance=ReviewGuidance.MERGE_WITHOUT_REVIEW,
        references=[
            Reference(
                url="https://flask.palletsprojects.com/en/2.3.x/patterns/javascript/#return-json-from-views"
            ),
            Reference(
                url="https://cheatsheetseries.owasp.org/cheatsheets/Cross_Site_Scripting_Prevention_Cheat_Sheet.html#output-encoding-for-javascript-contexts"
            ),
        ],
    ),
    transformer=LibcstTransformerPipeline(FlaskJsonResponseTypeTransformer),
    detector=None,
)
