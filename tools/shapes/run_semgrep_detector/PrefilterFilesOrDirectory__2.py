# src/codemodder/context.py @ proposed fix semgrep-skip-vanished-files
class CodemodExecutionContext:
    def semgrep_results_for_rule(self, codemod_id: str) -> list[Path]:
        # files reported by the start-up semgrep run may have vanished since;
        # semgrep exits with an error when handed a missing target
        return (
            [
                path
                for path in self.semgrep_prefilter_results.files_for_rule(codemod_id)
                if Path(path).exists()
            ]
            if self.semgrep_prefilter_results
            else []
        )
