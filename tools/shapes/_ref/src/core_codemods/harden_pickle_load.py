from typing import Mapping

from codemodder.codemods.import_modifier_codemod import ImportModifierCodemod
from codemodder.dependency import Dependency, Fickling
from core_codemods.api import Metadata, Reference, ReviewGuidance, SimpleCodemod


class HardenPickleLoad(SimpleCodemod, ImportModifierCodemod):
    metadata = Metadata(
        name="harden-pickle-load",
        summary="Harden `pickle.load()` against deserialization attacks",
        review_guidance=ReviewGuidance.MERGE_AFTER_CURSORY_REVIEW,
        references=[
            Reference(url="https://docs.python.org/3/library/pickle.html"),
            Reference(
                url="https://owasp.org/www-community/vulnerabilities/Deserialization_of_untrusted_data"
            ),
            Reference(
                url="https://cheatsheetseries.owasp.org/cheatsheets/Deserialization_Cheat_Sheet.html#clear-box-review_1"
            ),
            Reference(
                url="https://github.com/trailofbits/fickling",
            ),
        ],
    )

    change_description = "Harden `pickle.load()` against deserialization attacks"

    @property
    def dependency(self) -> Dependency:
        return Fickling

    @property
    def mapping(self) -> Mapping[str, str]:
        # NOTE: the fickling api doesn't seem to support `loads` yet
        return {
            "pickle.load": "fickling",
        }
