import libcst as cst

from codemodder.codemods.utils_mixin import NameResolutionMixin
from core_codemods.api import Metadata, Reference, ReviewGuidance, SimpleCodemod


class FixDeprecatedLoggingWarn(SimpleCodemod, NameResolutionMixin):
    metadata = Metadata(
        name="fix-deprecated-logging-warn",
        summary="Replace Deprecated `logging.warn`",
        review_guidance=ReviewGuidance.MERGE_WITHOUT_REVIEW,
        references=[
            Reference(
                url="https://docs.python.org/3/library/logging.html#logging.Logger.warning"
            ),
        ],
    )
    change_description = "Replace deprecated `logging.warn` with `logging.warning`"
    _module_name = "logging"
    detector_pattern = """
        rules:
            - pattern-either:
              - patterns:
                - pattern: logging.warn(...)
                - pattern-inside: |
                    import logging
                    ...
              - patterns:
                - pattern: logging.getLogger(...).warn(...)
                - pattern-inside: |
                    import logging
                    ...
              - patterns:
                - pattern: $VAR.warn(...)
                - pattern-inside: |
                    import logging
                    ...
                    $VAR = logging.getLogger(...)
                    ...

        """

    def on_result_found(self, original_node, updated_node):
        warning = cst.Name(value="warning")
        match original_node.func:
            case cst.Name():
                self.add_needed_import(self._module_name, "warning")
                self.remove_unused_import(original_node.func)
                return updated_node.with_changes(func=warning)
            case cst.Attribute():
                return updated_node.with_changes(
                    func=updated_node.func.with_changes(attr=warning)
                )
        return original_node
