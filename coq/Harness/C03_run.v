(** Checkers used by harness/c03.py (evaluated with vm_compute on generated case lists). *)
From CM Require Import Harness.RunBase Spec.DiffSpec Generated.Tables.
Local Open Scope N_scope.

(** an opcode of SequenceMatcher: (tag, i1, i2, j1, j2), tag 0 equal / 1 replace / 2 delete / 3 insert *)
Definition opcode := (N * N * N * N * N)%type.
Definition slice {A} (l : list A) (i j : N) : list A := firstn (N.to_nat (j - i)) (skipn (N.to_nat i) l).

(** what unified_diff reads of an opcode: a[i1:i2] for equal/replace/delete, b[j1:j2] for replace/insert *)
Definition seg_of (a b : list str) (o : opcode) : seg :=
  let '(t, i1, i2, j1, j2) := o in
  if t =? 0 then SEq (slice a i1 i2)
  else if t =? 1 then SRep (slice a i1 i2) (slice b j1 j2)
  else if t =? 2 then SRep (slice a i1 i2) []
  else SRep [] (slice b j1 j2).
Definition first_i1 (g : list opcode) : N := match g with (_, i1, _, _, _) :: _ => i1 | [] => 0 end.
Definition last_i2 (g : list opcode) : N := match last g (0, 0, 0, 0, 0) with (_, _, i2, _, _) => i2 end.
Fixpoint hunks_of_groups (a b : list str) (gs : list (list opcode)) : list (group * list str) :=
  match gs with
  | [] => []
  | g :: r =>
      (map (seg_of a b) g,
       slice a (last_i2 g) (match r with g' :: _ => first_i1 g' | [] => len a end))
      :: hunks_of_groups a b r
  end.
Definition script_of (a b : list str) (gs : list (list opcode)) : script :=
  {| gap0 := match gs with g :: _ => slice a 0 (first_i1 g) | [] => a end;
     hunks := hunks_of_groups a b gs |}.

Definition lines_eqb : list str -> list str -> bool := list_eqb str_eqb.
Definition ostr_eqb : option str -> option str -> bool := option_eqb str_eqb.
Definition subsetZ (x y : list Z) : bool := forallb (fun z => existsb (Z.eqb z) y) x.

(** pure case: old text, new text, lengths of the lines str.splitlines(keepends=True) gave for each,
    the real grouped opcodes, the real create_diff text, the real calc_line_num_changes of the real
    unified_diff lines, the Python reference applier's result on (real diff, old text), and the
    Python-side exotic flag *)
Record pure_case := { ta : str; tb : str; la : list N; lb : list N; ops : list (list opcode);
                      rdiff : str; rnums : list Z; pyres : option str; pyexotic : bool }.
Definition pa (c : pure_case) := splitlines_keepends (ta c).
Definition pb (c : pure_case) := splitlines_keepends (tb c).
Definition ps (c : pure_case) := script_of (pa c) (pb c) (ops c).

(** splitlines model = str.splitlines(keepends=True) *)
Definition split_model_ok (c : pure_case) : bool :=
  list_eqb N.eqb (map len (pa c)) (la c) && list_eqb N.eqb (map len (pb c)) (lb c).
(** oracle contracts of the matcher: the opcodes rebuild both inputs; no group for equal inputs *)
Definition matcher_contract_ok (c : pure_case) : bool :=
  lines_eqb (a_of (ps c)) (pa c) && lines_eqb (b_of (ps c)) (pb c)
  && (negb (lines_eqb (pa c) (pb c)) || is_nil (ops c)).
(** create_diff model = real create_diff *)
Definition diff_model_ok (c : pure_case) : bool := str_eqb (create_diff (ps c)) (rdiff c).
(** calc_line_num_changes model = real (as sets) *)
Definition linenum_model_ok (c : pure_case) : bool :=
  match calc_line_num_changes (udiff_lines (ps c)) with
  | Some L => subsetZ L (rnums c) && subsetZ (rnums c) L
  | None => false
  end.
(** SPEC: the real diff applied to the old text gives the new text up to the final newline *)
Definition apply_spec_ok (c : pure_case) : bool :=
  ostr_eqb (apply_udiff (rdiff c) (ta c)) (Some (norm_nl (tb c))).
(** SPEC: the diff is empty iff the texts are equal *)
Definition empty_spec_ok (c : pure_case) : bool := Bool.eqb (is_nil (rdiff c)) (str_eqb (ta c) (tb c)).
(** the Python transcription of the applier and of the class predicate agree with the Coq ones *)
Definition pyapplier_ok (c : pure_case) : bool :=
  ostr_eqb (apply_udiff (rdiff c) (ta c)) (pyres c)
  && Bool.eqb (has_exotic (ta c) || has_exotic (tb c)) (pyexotic c).

(** end-to-end case: (reported diff, content before, Python applier's result) *)
Definition e2e_case := (str * str * option str)%type.
Definition e2e_pyapplier_ok (c : e2e_case) : bool :=
  let '(d, f, r) := c in ostr_eqb (apply_udiff d f) r.
