(** Lifting lemmas: from a LOCAL contract of each transformer on one file to every run (any codemod list, any
    option set, any project), cited by C01 (still parses), C02 (unresolved names do not grow), C07 (second run is a
    no-op), and C03_unchanged (no change set for a path => its content is unchanged).

    All statements are closed: the oracles and their contracts are explicit premises.  Those that depend on how the
    pipelines are written are indexed by the guard table OF THE PIPELINE THE PROPERTY CONCERNS (libcst: C01, C02, C07 speak
    about python sources): they need `if not <changes>: return None` there ([libcst_nochange_guarded]), otherwise a
    NoChange outcome could re-emit `code` of the unchanged tree.  The contracts are demanded only of the codemods OF THE
    RUN ([P]) and only on contents satisfying an invariant [Good] that the transformers preserve (e.g. the complement of
    the finding classes), so that the conclusions apply to the unchanged tree.
    C07: [two_runs_noop] talks about a FIRST run and derives quietness of its output from explicit contracts (round trip
    parse (code t) = Some t; local idempotence of transformer+detector; no dependency without a rewrite); the older
    [quiet_run] (quiet content => no-op) is kept as the lemma it uses. *)
From CM Require Import Base.Dict Model.Run Spec.RunSpec Proofs.DictFacts Proofs.RunFacts Proofs.RunSteps Proofs.C10Facts
  Proofs.C09Facts Generated.Tables.

Definition libcst_nochange_guarded (tb : run_tables) : bool := has_guard IfNoChanges (t_libcst tb).

Definition nochange_guarded (tb : run_tables) : bool :=
  forallb (fun k => has_guard IfNoChanges (guards_of tb k)) all_pipes.
Lemma nochange_guarded_k tb k : nochange_guarded tb = true -> has_guard IfNoChanges (guards_of tb k) = true.
Proof.
  unfold nochange_guarded, all_pipes. simpl. rewrite !andb_true_iff. intros [H1 [H2 [H3 _]]]. destruct k; assumption.
Qed.

Definition opt_rel (Rel : bytes -> bytes -> Prop) (old new : option bytes) : Prop :=
  match old, new with
  | Some b, Some b' => Rel b' b
  | None, None => True
  | _, _ => False
  end.

Section Lift.
  Variable tb : run_tables.
  Variable tree : Type.
  Variable parse : pipe_kind -> bytes -> option tree.
  Variable code : pipe_kind -> tree -> bytes.
  Variable T : codemod -> tree -> option (list finding) -> outcome tree.
  Variable S : codemod -> path -> bytes -> list finding.
  Variable R : codemod -> list (path * list finding).
  Variable diff : bytes -> bytes -> str.
  Variable W : skind -> option bytes -> list dep -> option (bytes * str * list change).
  Variable fsel : codemod -> path -> bool.

  Local Notation fstep := (file_step tb tree parse code T diff).
  Local Notation pfile := (process_file tb tree parse code T diff).
  Local Notation mfiles := (map_files tb tree parse code T diff).
  Local Notation acodemod := (apply_codemod tb tree parse code T S R diff fsel).
  Local Notation pdeps := (process_dependencies tb W).
  Local Notation acodemods := (apply_codemods tb tree parse code T S R diff W fsel).
  Local Notation mrun := (run tb tree parse code T S R diff W fsel).

  (** ---- C03_unchanged ---- *)
  Lemma unchanged_no_changeset cfg Ks fs stores s' p :
    mrun cfg Ks fs stores = Ok s' ->
    (forall k cs, In cs (dgetl k (s_cs s')) -> cs_path cs <> p) ->
    lookup (s_fs s') p = lookup fs p.
  Proof.
    intros Hr Hno. unfold run in Hr. destruct (all_files cfg).
    - inversion Hr; subst. reflexivity.
    - destruct (acodemods_changed tb tree parse code T S R diff W fsel cfg _ Ks _ _ p Hr) as [[H|[k [cs [H1 H2]]]] _].
      + exact H.
      + exfalso. exact (Hno k cs H1 H2).
  Qed.

  (** ---- a preorder-like relation on contents is preserved along any run ---- *)
  Variable Rel : bytes -> bytes -> Prop.      (* Rel new old *)
  Hypothesis Rel_refl : forall b, Rel b b.
  Hypothesis Rel_trans : forall a b c, Rel c b -> Rel b a -> Rel c a.
  (** the codemods the contracts are about (those of the run) *)
  Variable P : codemod -> Prop.
  Hypothesis Hguard : forall K, P K -> has_guard IfNoChanges (guards_of tb (cpipe K)) = true.
  (** the local contract: what a transformer returns for a file relates to that file's text *)
  Hypothesis HT : forall K b t fi t' chs ds, P K ->
    parse (cpipe K) b = Some t -> T K t fi = Changed t' chs ds -> Rel (code (cpipe K) t') b.

  Definition fs_rel (excl : list path) (fs fs' : fsys) : Prop :=
    forall q, ~ In q excl -> opt_rel Rel (lookup fs q) (lookup fs' q).

  Lemma opt_rel_refl o : opt_rel Rel o o.
  Proof. destruct o; simpl; auto. Qed.
  Lemma opt_rel_trans a b c : opt_rel Rel a b -> opt_rel Rel b c -> opt_rel Rel a c.
  Proof. destruct a, b, c; simpl; try tauto. intros H1 H2. eapply Rel_trans; eauto. Qed.
  Lemma fs_rel_refl excl fs : fs_rel excl fs fs.
  Proof. intros q _. apply opt_rel_refl. Qed.
  Lemma fs_rel_trans excl a b c : fs_rel excl a b -> fs_rel excl b c -> fs_rel excl a c.
  Proof. intros H1 H2 q Hq. eapply opt_rel_trans; [apply H1|apply H2]; exact Hq. Qed.

  Lemma pfile_rel cfg K res fs p excl : P K -> fs_rel excl fs (snd (pfile cfg K res fs p)).
  Proof.
    intros HP q _. rewrite pfile_snd. destruct (snd (fstep cfg K res p (lookup fs p))) as [b'|] eqn:Ew; [|apply opt_rel_refl].
    destruct (str_eqb_spec q p) as [->|Hne]; [|rewrite lookup_fwrite_other by exact Hne; apply opt_rel_refl].
    rewrite lookup_fwrite_same. apply fstep_write in Ew. destruct Ew as [_ [b [t [Hc [Hp Hcase]]]]].
    rewrite Hc. simpl. destruct Hcase as [[_ [_ Hg]]|[t' [chs [ds [HTe ->]]]]].
    - rewrite (Hguard K HP) in Hg. discriminate.
    - eapply HT; eauto.
  Qed.

  Lemma mfiles_rel cfg K res excl : P K -> forall files fs, fs_rel excl fs (snd (mfiles cfg K res fs files)).
  Proof.
    intros HP. induction files as [|p rest IH]; intros fs; [apply fs_rel_refl|].
    rewrite mfiles_cons. cbn [snd]. eapply fs_rel_trans; [apply pfile_rel; exact HP|apply IH].
  Qed.

  Lemma acodemod_rel cfg pre K s s' excl : P K ->
    acodemod cfg pre K s = Ok s' \/ acodemod cfg pre K s = Aborted s' -> fs_rel excl (s_fs s) (s_fs s').
  Proof.
    intros HP H. destruct (acodemod_cases tb tree parse code T S R diff fsel cfg pre K s) as [E|[res [files [_ [_ [_ E]]]]]];
      rewrite E in H.
    - destruct H as [H|H]; inversion H; subst; apply fs_rel_refl.
    - apply presults_fs in H. destruct H as [H _]. rewrite H. simpl. now apply mfiles_rel.
  Qed.

  Lemma pdeps_rel cfg id s excl :
    (forall q, In q (map st_path (s_stores s)) -> In q excl) ->
    fs_rel excl (s_fs s) (s_fs (pdeps cfg id s)) /\
    map st_path (s_stores (pdeps cfg id s)) = map st_path (s_stores s).
  Proof.
    intros Hex. unfold process_dependencies. destruct (dgetl id (s_deps s)) as [|d0 ds0]; [split; [apply fs_rel_refl|reflexivity]|].
    destruct (s_stores s) eqn:Es; [split; [apply fs_rel_refl|reflexivity]|]. rewrite <- Es in *.
    assert (Hf : fs_rel excl (s_fs s) (snd (fst (try_stores tb W cfg (d0 :: ds0) (s_fs s) (s_stores s))))).
    { intros q Hq. rewrite (tstores_frame tb W); [apply opt_rel_refl|]. intros Hin. apply Hq. now apply Hex. }
    destruct (snd (try_stores tb W cfg (d0 :: ds0) (s_fs s) (s_stores s))); simpl; (split; [exact Hf|apply (tstores_paths tb W)]).
  Qed.

  Lemma acodemods_rel cfg pre excl Ks : forall s r,
    (forall K, In K Ks -> P K) ->
    (forall q, In q (map st_path (s_stores s)) -> In q excl) ->
    acodemods cfg pre Ks s = r -> fs_rel excl (s_fs s) (final_fs r).
  Proof.
    induction Ks as [|K rest IH]; intros s r HPs Hex Hr; simpl in Hr.
    - subst. apply fs_rel_refl.
    - assert (HPK : P K) by (apply HPs; now left).
      assert (HPr : forall K', In K' rest -> P K') by (intros K' Hin; apply HPs; now right).
      destruct (acodemod cfg pre K s) as [s1|s1] eqn:E.
      + pose proof (acodemod_frame tb tree parse code T S R diff fsel _ _ _ _ _ (or_introl E)) as [St1 _].
        destruct (pdeps_rel cfg (cid K) s1 excl) as [H2 H3]; [now rewrite St1|].
        eapply fs_rel_trans; [eapply acodemod_rel; [exact HPK|left; exact E]|].
        eapply fs_rel_trans; [exact H2|]. apply (IH _ _ HPr) in Hr; [exact Hr|]. now rewrite H3, St1.
      + subst. simpl. eapply acodemod_rel; [exact HPK|]. right. exact E.
  Qed.

  (** every path that is not a manifest: the final content is related to the initial one (and no file appears or
      disappears), whether the run completes or aborts *)
  Lemma lift_rel cfg Ks fs stores p :
    (forall K, In K Ks -> P K) ->
    ~ In p (map st_path stores) ->
    opt_rel Rel (lookup fs p) (lookup (final_fs (mrun cfg Ks fs stores)) p).
  Proof.
    intros HPs Hp. unfold run. destruct (all_files cfg); [apply opt_rel_refl|].
    pose proof (acodemods_rel cfg (prefilter_of S cfg Ks fs) (map st_path stores) Ks (init_state fs stores) _ HPs
                  (fun q H => H) eq_refl) as H.
    apply H. exact Hp.
  Qed.
End Lift.

(** ---- the second run of a codemod on "quiet" content writes nothing and reports nothing (C07) ---- *)
Section Quiet.
  Variable tb : run_tables.
  Variable tree : Type.
  Variable parse : pipe_kind -> bytes -> option tree.
  Variable code : pipe_kind -> tree -> bytes.
  Variable T : codemod -> tree -> option (list finding) -> outcome tree.
  Variable S : codemod -> path -> bytes -> list finding.
  Variable R : codemod -> list (path * list finding).
  Variable diff : bytes -> bytes -> str.
  Variable W : skind -> option bytes -> list dep -> option (bytes * str * list change).
  Variable fsel : codemod -> path -> bool.

  (** the findings the detector of [K] hands to the transformer for a file with content [b] (when it hands any) *)
  Definition local_findings (K : codemod) (p : path) (b : bytes) : option (list finding) :=
    match cdet K with
    | DNone => None
    | DSemgrep => Some (S K p b)
    | DSast => Some (res_get (R K) p)
    end.

  (** LOCAL: applied to content [b] with findings [fi], the transformer of [K] reports nothing new:
      no dependency, and either no change or (where the pipeline tests it) an empty diff *)
  Definition quiet (K : codemod) (fi : option (list finding)) (b : bytes) : Prop :=
    match parse (cpipe K) b with
    | None => True
    | Some t =>
        match T K t fi with
        | Raise | NoChange => True
        | Changed t' chs ds =>
            ds = [] /\ (chs = [] \/ (has_guard IfNoDiff (guards_of tb (cpipe K)) = true /\
                                     diff (diff_base tb tree code (cpipe K) b t) (code (cpipe K) t') = []))
        end
    end.

  Lemma quiet_step cfg K res p c :
    has_guard IfNoChanges (guards_of tb (cpipe K)) = true ->
    (forall b, c = Some b -> findings_for res p <> Some [] -> quiet K (findings_for res p) b) ->
    snd (file_step tb tree parse code T diff cfg K res p c) = None /\
    (fst (file_step tb tree parse code T diff cfg K res p c) = FCrash \/
     exists cx, fst (file_step tb tree parse code T diff cfg K res p c) = FCtx cx /\ fc_cs cx = [] /\ fc_deps cx = []).
  Proof.
    intros HgK Hq. unfold file_step. destruct (findings_for res p) as [[|f l]|] eqn:Ef.
    - split; [reflexivity|right; eexists; split; [reflexivity|split; reflexivity]].
    - assert (Hq' : forall b, c = Some b -> quiet K (Some (f :: l)) b) by (intros b Hb; apply Hq; [exact Hb|discriminate]).
      clear Hq. cbn [fst snd]. unfold pipeline_apply; cbv zeta.
      rewrite HgK.
      destruct c as [b|]; [|destruct (has_guard TryParse _); simpl; split; auto; right; eexists; split; [reflexivity|split; reflexivity]].
      specialize (Hq' b eq_refl). unfold quiet in Hq'.
      destruct (parse (cpipe K) b) as [t|]; [|destruct (has_guard TryParse _); simpl; split; auto; right; eexists; split; [reflexivity|split; reflexivity]].
      destruct (T K t (Some (f :: l))) as [| |t' chs ds].
      + destruct (has_guard TryTransform _); simpl; split; auto; right; eexists; split; [reflexivity|split; reflexivity].
      + simpl. split; auto. right; eexists; split; [reflexivity|split; reflexivity].
      + destruct Hq' as [-> [->|[Hg Hd]]].
        * simpl. split; auto. right; eexists; split; [reflexivity|split; reflexivity].
        * cbv beta iota. rewrite Hg, Hd. destruct (true && is_nil chs); simpl; (split; [reflexivity|]);
            right; eexists; (split; [reflexivity|split; reflexivity]).
    - assert (Hq' : forall b, c = Some b -> quiet K None b) by (intros b Hb; apply Hq; [exact Hb|discriminate]).
      clear Hq. cbn [fst snd]. unfold pipeline_apply; cbv zeta.
      rewrite HgK.
      destruct c as [b|]; [|destruct (has_guard TryParse _); simpl; split; auto; right; eexists; split; [reflexivity|split; reflexivity]].
      specialize (Hq' b eq_refl). unfold quiet in Hq'.
      destruct (parse (cpipe K) b) as [t|]; [|destruct (has_guard TryParse _); simpl; split; auto; right; eexists; split; [reflexivity|split; reflexivity]].
      destruct (T K t None) as [| |t' chs ds].
      + destruct (has_guard TryTransform _); simpl; split; auto; right; eexists; split; [reflexivity|split; reflexivity].
      + simpl. split; auto. right; eexists; split; [reflexivity|split; reflexivity].
      + destruct Hq' as [-> [->|[Hg Hd]]].
        * simpl. split; auto. right; eexists; split; [reflexivity|split; reflexivity].
        * cbv beta iota. rewrite Hg, Hd. destruct (true && is_nil chs); simpl; (split; [reflexivity|]);
            right; eexists; (split; [reflexivity|split; reflexivity]).
  Qed.

  (** what the detector hands over for a file is either nothing-to-do or the local findings *)
  Lemma res_get_scan K fs scope p :
    res_get (semgrep_scan S K fs scope) p = [] \/ res_get (semgrep_scan S K fs scope) p = findings_at S K fs p.
  Proof.
    unfold semgrep_scan, res_get. induction scope as [|q r IH]; simpl; [now left|].
    destruct (findings_at S K fs q) as [|f l] eqn:E; simpl; [exact IH|].
    destruct (str_eqb_spec p q) as [->|Hne]; [right; now rewrite E | exact IH].
  Qed.

  Lemma findings_local cfg K pre fs p b : lookup fs p = Some b ->
    findings_for (detect S R cfg K pre fs) p = Some [] \/ findings_for (detect S R cfg K pre fs) p = local_findings K p b.
  Proof.
    intros Hb. unfold detect, local_findings, findings_for. destruct (cdet K); [now right| |now right].
    match goal with |- context [semgrep_scan S K fs ?sc] => destruct (res_get_scan K fs sc p) as [H|H] end; rewrite H;
      [now left|right]. unfold findings_at. now rewrite Hb.
  Qed.

  Lemma quiet_files cfg K res : has_guard IfNoChanges (guards_of tb (cpipe K)) = true -> forall files fs s,
    (forall p b, In p files -> lookup fs p = Some b -> findings_for res p <> Some [] -> quiet K (findings_for res p) b) ->
    snd (map_files tb tree parse code T diff cfg K res fs files) = fs /\
    forall s', process_results (cid K) (fst (map_files tb tree parse code T diff cfg K res fs files)) s = Ok s' ->
               (forall k, dgetl k (s_cs s') = dgetl k (s_cs s)) /\ (forall k, dgetl k (s_deps s') = dgetl k (s_deps s)).
  Proof.
    intros HgK. induction files as [|p rest IH]; intros fs s Hq.
    - simpl. split; [reflexivity|]. intros s' [= <-]. auto.
    - rewrite mfiles_cons. cbn [fst snd]. rewrite pfile_snd, pfile_fst.
      assert (Hq' : forall p0 b, In p0 rest -> lookup fs p0 = Some b -> findings_for res p0 <> Some [] -> quiet K (findings_for res p0) b)
        by (intros p0 b Hin; apply Hq; now right).
      destruct (quiet_step cfg K res p (lookup fs p) HgK) as [Hw Hc]; [intros b Hb; apply Hq; [now left|exact Hb]|].
      rewrite Hw. destruct (IH fs s Hq') as [Hfs _]. split; [exact Hfs|].
      intros s' Hs'. destruct Hc as [Hc|[cx [Hc [H1 H2]]]]; rewrite Hc in Hs'; cbn [process_results] in Hs'; [discriminate|].
      destruct (IH fs (merge_ctx (cid K) cx s) Hq') as [_ Hagg]. destruct (Hagg s' Hs') as [A B].
      split; intros k.
      + rewrite A. simpl. rewrite dgetl_dext, H1, app_nil_r. now destruct (str_eqb k (cid K)).
      + rewrite B. simpl. destruct (str_eqb_spec k (cid K)) as [->|Hne].
        * now rewrite dgetl_dunion_same, H2.
        * now rewrite dgetl_dunion_other.
  Qed.

  Lemma quiet_run_sel cfg K fs stores :
    has_guard IfNoChanges (guards_of tb (cpipe K)) = true ->
    (forall p b, In p (files_to_analyze fsel cfg K (detect S R cfg K (prefilter_of S cfg [K] fs) fs)) ->
                 lookup fs p = Some b -> local_findings K p b <> Some [] -> quiet K (local_findings K p b) b) ->
    final_fs (run tb tree parse code T S R diff W fsel cfg [K] fs stores) = fs /\
    forall s, run tb tree parse code T S R diff W fsel cfg [K] fs stores = Ok s ->
      s_fs s = fs /\ s_stores s = stores /\
      (forall k, dgetl k (s_cs s) = []) /\ (forall k, dgetl k (s_deps s) = []).
  Proof.
    intros HgK Hq. unfold run. destruct (all_files cfg) as [|f0 fl]; [split; [reflexivity|intros s [= <-]; repeat split; reflexivity]|].
    set (pre := prefilter_of S cfg [K] fs). set (s0 := init_state fs stores). cbn [apply_codemods].
    assert (HA : (apply_codemod tb tree parse code T S R diff fsel cfg pre K s0 = Ok s0) \/
                 (exists s1, apply_codemod tb tree parse code T S R diff fsel cfg pre K s0 = Aborted s1 /\ s_fs s1 = fs) \/
                 (exists s1, apply_codemod tb tree parse code T S R diff fsel cfg pre K s0 = Ok s1 /\ s_fs s1 = fs /\
                             s_stores s1 = stores /\ (forall k, dgetl k (s_cs s1) = []) /\ (forall k, dgetl k (s_deps s1) = []))).
    { destruct (acodemod_cases tb tree parse code T S R diff fsel cfg pre K s0) as [E|[res [files [_ [Hres [Hfiles E]]]]]]; [now left|].
      right. rewrite E.
      destruct (quiet_files cfg K res HgK files fs (with_fs s0 (snd (map_files tb tree parse code T diff cfg K res fs files)))) as [Hfs Hagg].
      { intros p b Hin Hb Hne. subst res files. destruct (findings_local cfg K pre fs p b Hb) as [H|H]; [contradiction|].
        change (s_fs s0) with fs in *. rewrite H in *. now apply Hq. }
      change (s_fs s0) with fs.
      destruct (process_results (cid K) _ _) as [s1|s1] eqn:Ep.
      - right. exists s1. split; [reflexivity|]. pose proof (presults_fs _ _ _ _ (or_introl Ep)) as [F [St _]].
        destruct (Hagg s1 eq_refl) as [A B]. simpl in *. rewrite F, St, Hfs. repeat split; auto.
      - left. exists s1. split; [reflexivity|]. pose proof (presults_fs _ _ _ _ (or_intror Ep)) as [F _].
        rewrite F. simpl. exact Hfs. }
    destruct HA as [E|[[s1 [E F]]|[s1 [E [F [St [A B]]]]]]]; rewrite E.
    - assert (Hp : process_dependencies tb W cfg (cid K) s0 = s0) by reflexivity. rewrite Hp.
      split; [reflexivity|]. intros s [= <-]. repeat split; reflexivity.
    - split; [exact F|]. intros s Hs. discriminate.
    - assert (Hp : process_dependencies tb W cfg (cid K) s1 = s1).
      { unfold process_dependencies. now rewrite B. }
      rewrite Hp. split; [exact F|]. intros s [= <-]. repeat split; auto.
  Qed.

  Lemma quiet_run cfg K fs stores :
    has_guard IfNoChanges (guards_of tb (cpipe K)) = true ->
    (forall p b, lookup fs p = Some b -> quiet K (local_findings K p b) b) ->
    final_fs (run tb tree parse code T S R diff W fsel cfg [K] fs stores) = fs /\
    forall s, run tb tree parse code T S R diff W fsel cfg [K] fs stores = Ok s ->
      s_fs s = fs /\ s_stores s = stores /\
      (forall k, dgetl k (s_cs s) = []) /\ (forall k, dgetl k (s_deps s) = []).
  Proof. intros HgK Hq. apply quiet_run_sel; [exact HgK|]. intros p b _ Hb _. now apply Hq. Qed.
End Quiet.

(** ---- C07 with a FIRST run: the output of a run of [K] is quiet for [K], hence the second run is a no-op ---- *)
Section TwoRuns.
  Variable tb : run_tables.
  Variable tree : Type.
  Variable parse : pipe_kind -> bytes -> option tree.
  Variable code : pipe_kind -> tree -> bytes.
  Variable T : codemod -> tree -> option (list finding) -> outcome tree.
  Variable S : codemod -> path -> bytes -> list finding.
  Variable R : codemod -> list (path * list finding).
  Variable diff : bytes -> bytes -> str.
  Variable W : skind -> option bytes -> list dep -> option (bytes * str * list change).
  Variable fsel : codemod -> path -> bool.
  Variable cfg : config.
  Variable K : codemod.

  Local Notation papply := (pipeline_apply tb tree parse code T diff cfg K).
  Local Notation fstep := (file_step tb tree parse code T diff cfg K).
  Local Notation mfiles := (map_files tb tree parse code T diff cfg K).
  Local Notation mrun := (run tb tree parse code T S R diff W fsel cfg).
  Local Notation qt := (quiet tb tree parse code T diff K).
  Local Notation lf := (local_findings S R K).
  Local Notation gs := (guards_of tb (cpipe K)).

  Hypothesis HgK : has_guard IfNoChanges gs = true.
  Hypothesis Hwet : dry_run cfg = false.
  Hypothesis Hnd1 : NoDup (ff_paths cfg).
  Hypothesis Hnd2 : NoDup (all_files cfg).
  (** semgrep-detected codemods are find-and-fix codemods (remediation codemods read tool result files) *)
  Hypothesis Hshape : cdet K = DSemgrep -> cbase K = FindAndFix.
  (** CONTRACTS of the oracles for [K] *)
  (** round trip: what the pipeline writes parses back to the tree it was printed from *)
  Hypothesis Hrt : forall t, parse (cpipe K) (code (cpipe K) t) = Some t.
  (** no dependency is requested without a reported rewrite *)
  Hypothesis Hnodep : forall b t fi t' chs ds, T K t fi = Changed t' chs ds ->
    (chs = [] \/ (has_guard IfNoDiff gs = true /\ diff (diff_base tb tree code (cpipe K) b t) (code (cpipe K) t') = [])) -> ds = [].
  (** local idempotence of (detector, transformer) on ONE file: applied to its own output, with the findings its detector
      has for that output, the transformer reports nothing new *)
  Hypothesis Hidem : forall p t fi t' chs ds, T K t fi = Changed t' chs ds -> chs <> [] ->
    match T K t' (lf p (code (cpipe K) t')) with
    | Raise | NoChange => True
    | Changed t'' chs' ds' =>
        ds' = [] /\ (chs' = [] \/ (has_guard IfNoDiff gs = true /\
                                    diff (diff_base tb tree code (cpipe K) (code (cpipe K) t') t') (code (cpipe K) t'') = []))
    end.

  Lemma nowrite_quiet p b fi : snd (papply p (Some b) fi) = None -> qt fi b.
  Proof.
    unfold pipeline_apply, quiet; cbv zeta. rewrite HgK, Hwet.
    destruct (parse (cpipe K) b) as [t|]; [|trivial].
    destruct (T K t fi) as [| |t' chs ds] eqn:ET; trivial. cbv beta iota.
    destruct chs as [|c chs'].
    - simpl. intros _. split; [exact (Hnodep b t fi t' [] ds ET (or_introl eq_refl))|now left].
    - cbn [is_nil andb].
      destruct (has_guard IfNoDiff gs) eqn:G; cbn [andb].
      + destruct (diff (diff_base tb tree code (cpipe K) b t) (code (cpipe K) t')) as [|x d] eqn:Ed; cbn [is_nil].
        * intros _. split; [exact (Hnodep b t fi t' (c :: chs') ds ET (or_intror (conj eq_refl Ed)))|right; split; reflexivity].
        * rewrite andb_false_r. discriminate.
      + rewrite andb_false_r. discriminate.
  Qed.

  Lemma write_quiet p c fi b' : snd (papply p c fi) = Some b' -> qt (lf p b') b'.
  Proof.
    intros Hw. pose proof Hw as Hw0. apply papply_write in Hw. destruct Hw as [_ [b [t [-> [Hp [[_ [_ Hg]]|[t' [chs [ds [ET ->]]]]]]]]]].
    - rewrite HgK in Hg. discriminate.
    - assert (Hne : chs <> []).
      { intros ->. revert Hw0. unfold pipeline_apply; cbv zeta. rewrite Hp, ET, HgK. simpl. discriminate. }
      unfold quiet. rewrite Hrt. exact (Hidem p t fi t' chs ds ET Hne).
  Qed.

  (** what the detector hands over for a selected file of a single-codemod run is exactly the local findings *)
  Lemma scan_exact fs scope p : In p scope -> res_get (semgrep_scan S K fs scope) p = findings_at S K fs p.
  Proof.
    unfold semgrep_scan. induction scope as [|q r IH]; intros Hin; [destruct Hin|]. cbn [flat_map].
    destruct (findings_at S K fs q) as [|f l] eqn:E.
    - cbn [app]. destruct (str_eqb_spec p q) as [->|Hne].
      + rewrite E. destruct (res_get_scan S K fs r q) as [H|H]; fold (semgrep_scan S K fs r); rewrite H; [reflexivity|exact E].
      + apply IH. destruct Hin as [->|Hin]; [contradiction|exact Hin].
    - cbn [app]. unfold res_get. cbn [dget]. destruct (str_eqb_spec p q) as [->|Hne]; [now rewrite E|].
      apply IH. destruct Hin as [->|Hin]; [contradiction|exact Hin].
  Qed.

  Lemma scan_hit fs scope p : In p scope -> findings_at S K fs p <> [] -> In p (map fst (semgrep_scan S K fs scope)).
  Proof.
    unfold semgrep_scan. induction scope as [|q r IH]; intros Hin Hne; [destruct Hin|]. cbn [flat_map]. rewrite map_app, in_app_iff.
    destruct Hin as [->|Hin]; [left|right; now apply IH].
    destruct (findings_at S K fs p); [contradiction|now left].
  Qed.

  Lemma findings_exact fs p b :
    In p (files_to_analyze fsel cfg K (detect S R cfg K (prefilter_of S cfg [K] fs) fs)) -> lookup fs p = Some b ->
    findings_for (detect S R cfg K (prefilter_of S cfg [K] fs) fs) p = lf p b.
  Proof.
    intros Hin Hb. unfold local_findings. unfold detect in *. destruct (cdet K) eqn:Ed; [reflexivity| |reflexivity].
    cbn [findings_for]. f_equal.
    assert (Hff : In p (ff_paths cfg)).
    { unfold files_to_analyze in Hin. rewrite (Hshape eq_refl) in Hin. apply filter_In in Hin. tauto. }
    assert (Hfa : findings_at S K fs p = S K p b) by (unfold findings_at; now rewrite Hb).
    rewrite <- Hfa.
    unfold prefilter_of. cbn [fold_left]. rewrite Ed.
    set (scope0 := match ff_paths cfg with [] => scan_all cfg | l => l end).
    assert (Hs0 : In p scope0) by (unfold scope0; destruct (ff_paths cfg); [destruct Hff|exact Hff]).
    destruct (map fst (semgrep_scan S K fs scope0)) as [|x l] eqn:Eh.
    - (* no hit anywhere in the prefilter's scope: in particular none in p *)
      assert (H0 : findings_at S K fs p = []).
      { destruct (findings_at S K fs p) as [|f fl] eqn:E; [reflexivity|]. exfalso.
        assert (Hi : In p (map fst (semgrep_scan S K fs scope0))) by (apply scan_hit; [exact Hs0|rewrite E; discriminate]).
        rewrite Eh in Hi. destruct Hi. }
      rewrite H0. unfold dgetl. cbn [dget].
      match goal with |- res_get (semgrep_scan S K fs ?sc) p = [] => destruct (res_get_scan S K fs sc p) as [H|H]; rewrite H; [reflexivity|exact H0] end.
    - unfold dgetl. rewrite (dget_dset_same str_eqb str_eqb_spec).
      destruct (findings_at S K fs p) as [|f fl] eqn:E.
      + destruct (res_get_scan S K fs (x :: l) p) as [H|H]; rewrite H; [reflexivity|exact E].
      + rewrite <- E. apply scan_exact. rewrite <- Eh. apply scan_hit; [exact Hs0|rewrite E; discriminate].
  Qed.

  (** the selection of files does not depend on the tree's contents *)
  Lemma files_same preA fsA preB fsB :
    files_to_analyze fsel cfg K (detect S R cfg K preA fsA) = files_to_analyze fsel cfg K (detect S R cfg K preB fsB).
  Proof.
    unfold files_to_analyze, detect. destruct (cbase K) eqn:Eb; [reflexivity|].
    destruct (cdet K) eqn:Ed; [reflexivity| |reflexivity]. discriminate (Hshape eq_refl).
  Qed.

  Lemma files_nodup' res : NoDup (files_to_analyze fsel cfg K res).
  Proof.
    unfold files_to_analyze. destruct (cbase K); [now apply NoDup_filter|]. destruct res; [now apply NoDup_filter|constructor].
  Qed.

  Lemma files_fsel res p : In p (files_to_analyze fsel cfg K res) -> fsel K p = true.
  Proof.
    unfold files_to_analyze. destruct (cbase K); [intros H; apply filter_In in H; tauto|].
    destruct res; [|intros []]. intros H. apply filter_In in H. destruct H as [_ H]. apply andb_true_iff in H. tauto.
  Qed.

  Lemma pdeps_frame_fs id s q : ~ In q (map st_path (s_stores s)) ->
    lookup (s_fs (process_dependencies tb W cfg id s)) q = lookup (s_fs s) q.
  Proof.
    intros Hn. unfold process_dependencies. destruct (dgetl id (s_deps s)) as [|d0 ds0]; [reflexivity|].
    destruct (s_stores s) eqn:Es; [reflexivity|]. rewrite <- Es in *.
    destruct (snd (try_stores tb W cfg (d0 :: ds0) (s_fs s) (s_stores s))); simpl; now apply (tstores_frame tb W).
  Qed.

  (** content of a selected file after the first run *)
  Definition early (fs : fsys) : bool :=
    is_nil (all_files cfg) || negb (cavail K) ||
    match eff_detect S R cfg (prefilter_of S cfg [K] fs) K fs with
    | None => true
    | Some res => is_nil (files_to_analyze fsel cfg K res)
    end.

  Lemma eff_detect_some pre fs res : eff_detect S R cfg pre K fs = Some res -> res = detect S R cfg K pre fs.
  Proof.
    unfold eff_detect. destruct (_ && _ && _); [discriminate|].
    destruct (detect S R cfg K pre fs) as [[|x r]|]; [discriminate| |]; now intros [= <-].
  Qed.

  Lemma run_early fs stores : early fs = true -> mrun [K] fs stores = Ok (init_state fs stores).
  Proof.
    unfold early, run. destruct (all_files cfg) as [|f0 fl]; [reflexivity|]. cbn [is_nil orb apply_codemods].
    rewrite (acodemod_eff tb tree parse code T S R diff fsel cfg). destruct (negb (cavail K)); cbn [orb]; [reflexivity|].
    cbn [s_fs init_state].
    destruct (eff_detect S R cfg (prefilter_of S cfg [K] fs) K fs) as [res|]; [|reflexivity].
    destruct (files_to_analyze fsel cfg K res); [reflexivity|discriminate].
  Qed.

  Lemma run_main fs stores p : early fs = false ->
    let res := detect S R cfg K (prefilter_of S cfg [K] fs) fs in
    In p (files_to_analyze fsel cfg K res) -> ~ In p (map st_path stores) ->
    lookup (final_fs (mrun [K] fs stores)) p =
    match snd (fstep res p (lookup fs p)) with Some b' => Some b' | None => lookup fs p end.
  Proof.
    pose proof files_nodup' as Hfn.
    unfold early, run. destruct (all_files cfg) as [|f0 fl]; [discriminate|]. cbn [is_nil orb apply_codemods].
    rewrite (acodemod_eff tb tree parse code T S R diff fsel cfg). destruct (negb (cavail K)); cbn [orb]; [discriminate|].
    cbn [s_fs init_state].
    destruct (eff_detect S R cfg (prefilter_of S cfg [K] fs) K fs) as [res|] eqn:Ee; [|discriminate].
    apply eff_detect_some in Ee. subst res.
    set (res := detect S R cfg K (prefilter_of S cfg [K] fs) fs).
    destruct (files_to_analyze fsel cfg K res) as [|f fl'] eqn:Ef; [discriminate|]. intros _ Hin Hst. cbv zeta.
    rewrite <- Ef in *. set (files := files_to_analyze fsel cfg K res) in *.
    set (s0 := init_state fs stores).
    assert (Hl : lookup (snd (mfiles res fs files)) p =
                 match snd (fstep res p (lookup fs p)) with Some b' => Some b' | None => lookup fs p end).
    { apply mfiles_lookup; [apply Hfn|exact Hin]. }
    destruct (process_results (cid K) (fst (mfiles res fs files)) (with_fs s0 (snd (mfiles res fs files)))) as [s1|s1] eqn:Ep.
    - pose proof (presults_fs _ _ _ _ (or_introl Ep)) as [F [St _]]. cbn [apply_codemods final_fs].
      rewrite pdeps_frame_fs by (rewrite St; exact Hst). rewrite F. exact Hl.
    - pose proof (presults_fs _ _ _ _ (or_intror Ep)) as [F _]. cbn [final_fs]. rewrite F. exact Hl.
  Qed.

  Lemma early_fs fs stores : early fs = true -> final_fs (mrun [K] fs stores) = fs.
  Proof. intros H. now rewrite run_early. Qed.

  (** THE C07 LIFT: run [K], then run [K] again on the result (any stores: a fresh invocation re-parses the manifests) *)
  Theorem two_runs_noop fs stores stores2 :
    (forall st, In st stores -> fsel K (st_path st) = false) ->       (* no manifest is a source file selected by K *)
    let fs1 := final_fs (mrun [K] fs stores) in
    final_fs (mrun [K] fs1 stores2) = fs1 /\
    forall s, mrun [K] fs1 stores2 = Ok s ->
      s_fs s = fs1 /\ s_stores s = stores2 /\ (forall k, dgetl k (s_cs s) = []) /\ (forall k, dgetl k (s_deps s) = []).
  Proof.
    intros Hman fs1.
    destruct (early fs) eqn:Ee.
    - (* nothing was applied by the first run: the second one sees the same tree and does the same *)
      assert (E1 : fs1 = fs) by (unfold fs1; now apply early_fs). rewrite E1.
      rewrite (run_early fs stores2 Ee). split; [reflexivity|]. intros s [= <-]. repeat split; reflexivity.
    - apply (quiet_run_sel tb tree parse code T S R diff W fsel cfg K fs1 stores2 HgK).
      intros p b1 Hin2 Hb1 Hne.
      set (res1 := detect S R cfg K (prefilter_of S cfg [K] fs) fs).
      assert (Hin1 : In p (files_to_analyze fsel cfg K res1)) by (unfold res1; now rewrite (files_same (prefilter_of S cfg [K] fs) fs (prefilter_of S cfg [K] fs1) fs1)).
      assert (Hst : ~ In p (map st_path stores)).
      { intros Hi. apply in_map_iff in Hi. destruct Hi as [st [<- Hi]]. apply files_fsel in Hin1. rewrite (Hman st Hi) in Hin1. discriminate. }
      pose proof (run_main fs stores p Ee Hin1 Hst) as Hl. fold fs1 in Hl. fold res1 in Hl. rewrite Hb1 in Hl.
      unfold file_step in Hl.
      destruct (findings_for res1 p) as [[|f l]|] eqn:Ef.
      + (* short-circuited in the first run: same content, and the exact findings say there is nothing to do *)
        cbn [snd] in Hl. symmetry in Hl. pose proof (findings_exact fs p b1 Hin1 Hl) as Hx. fold res1 in Hx. rewrite Ef in Hx.
        rewrite <- Hx in Hne. contradiction.
      + cbn [snd] in Hl. destruct (snd (papply p (lookup fs p) (Some (f :: l)))) as [b'|] eqn:Ew.
        * inversion Hl; subst b'. eapply write_quiet; exact Ew.
        * symmetry in Hl. pose proof (findings_exact fs p b1 Hin1 Hl) as Hx. fold res1 in Hx. rewrite Ef in Hx.
          rewrite <- Hx. apply (nowrite_quiet p). rewrite <- Hl. exact Ew.
      + cbn [snd] in Hl. destruct (snd (papply p (lookup fs p) None)) as [b'|] eqn:Ew.
        * inversion Hl; subst b'. eapply write_quiet; exact Ew.
        * symmetry in Hl. pose proof (findings_exact fs p b1 Hin1 Hl) as Hx. fold res1 in Hx. rewrite Ef in Hx.
          rewrite <- Hx. apply (nowrite_quiet p). rewrite <- Hl. exact Ew.
  Qed.
End TwoRuns.

(** ================= closed statements, indexed by the tables ================= *)
Definition C03_unchanged_statement : Prop :=
  forall (tb : run_tables) (tree : Type) parse code T S R diff W fsel (cfg : config) (Ks : list codemod) (fs : fsys)
         (stores : list store) (s' : state) (p : path),
    run tb tree parse code T S R diff W fsel cfg Ks fs stores = Ok s' ->
    (forall k cs, In cs (dgetl k (s_cs s')) -> cs_path cs <> p) ->
    lookup (s_fs s') p = lookup fs p.
Theorem C03_unchanged : C03_unchanged_statement.
Proof. exact unchanged_no_changeset. Qed.

(** C01: for the codemods OF THE RUN (all on the libcst pipeline) and an invariant [Good] on file text that their
    transformers preserve (True, or the complement of the finding classes): if each maps Good text that parses to Good text
    that parses, then after the run every non-manifest file that was Good and parsed before is Good and parses after (and
    exists iff it existed), whether the run completes or aborts.  _partial w.r.t. the property: the premise is a contract of
    the transformers (discharged for a modelled kernel in Properties/C01.v, tested for the others). *)
Definition C01_lift_statement (tb : run_tables) : Prop :=
  if libcst_nochange_guarded tb then
    forall (tree : Type) parse code T S R diff W fsel (Good : bytes -> Prop) (Ks : list codemod),
      (forall K, In K Ks -> cpipe K = PLibcst) ->
      (forall K b t fi t' chs ds, In K Ks -> Good b -> parse PLibcst b = Some t -> T K t fi = Changed t' chs ds ->
         parse PLibcst (code PLibcst t') <> None /\ Good (code PLibcst t')) ->
      forall (cfg : config) (fs : fsys) (stores : list store) (p : path) (b : bytes),
        ~ In p (map st_path stores) -> lookup fs p = Some b -> Good b -> parse PLibcst b <> None ->
        exists b', lookup (final_fs (run tb tree parse code T S R diff W fsel cfg Ks fs stores)) p = Some b' /\
                   parse PLibcst b' <> None /\ Good b'
  else True.
Lemma C01_lift_all tb : C01_lift_statement tb.
Proof.
  unfold C01_lift_statement, libcst_nochange_guarded. destruct (has_guard IfNoChanges (t_libcst tb)) eqn:G; [|exact I].
  intros tree parse code T S R diff W fsel Good Ks Hk HT cfg fs stores p b Hp Hb Hg Hpar.
  pose proof (lift_rel tb tree parse code T S R diff W fsel
                (fun b' b => Good b /\ parse PLibcst b <> None -> Good b' /\ parse PLibcst b' <> None)
                (fun _ H => H) (fun a b c H1 H2 H => H1 (H2 H)) (fun K => In K Ks)) as HL.
  assert (H : opt_rel (fun b' b => Good b /\ parse PLibcst b <> None -> Good b' /\ parse PLibcst b' <> None)
                (lookup fs p) (lookup (final_fs (run tb tree parse code T S R diff W fsel cfg Ks fs stores)) p)).
  { apply HL; auto.
    - intros K HK. rewrite (Hk K HK). exact G.
    - intros K b0 t fi t' chs ds HK Hp0 HT0 [Hg0 _]. rewrite (Hk K HK) in *.
      destruct (HT K b0 t fi t' chs ds HK Hg0 Hp0 HT0) as [A B]. split; assumption. }
  rewrite Hb in H. destruct (lookup (final_fs _) p) as [b'|]; simpl in H; [|contradiction].
  destruct (H (conj Hg Hpar)) as [A B]. eauto.
Qed.
Theorem C01_lift : C01_lift_statement run_tables_v.
Proof. exact (C01_lift_all run_tables_v). Qed.

(** C02: a preorder [le] on an abstract measure [u] of file text (e.g. the set of unresolved names under inclusion)
    is preserved along any run if each transformer OF THE RUN preserves it on [Good] text (and preserves [Good]). *)
Definition C02_lift_statement (tb : run_tables) : Prop :=
  if libcst_nochange_guarded tb then
    forall (tree : Type) parse code T S R diff W fsel (X : Type) (u : bytes -> X) (le : X -> X -> Prop)
           (Good : bytes -> Prop) (Ks : list codemod),
      (forall x, le x x) -> (forall x y z, le x y -> le y z -> le x z) ->
      (forall K, In K Ks -> cpipe K = PLibcst) ->
      (forall K b t fi t' chs ds, In K Ks -> Good b -> parse PLibcst b = Some t -> T K t fi = Changed t' chs ds ->
         le (u (code PLibcst t')) (u b) /\ Good (code PLibcst t')) ->
      forall (cfg : config) (fs : fsys) (stores : list store) (p : path) (b : bytes),
        ~ In p (map st_path stores) -> lookup fs p = Some b -> Good b ->
        exists b', lookup (final_fs (run tb tree parse code T S R diff W fsel cfg Ks fs stores)) p = Some b' /\
                   le (u b') (u b) /\ Good b'
  else True.
Lemma C02_lift_all tb : C02_lift_statement tb.
Proof.
  unfold C02_lift_statement, libcst_nochange_guarded. destruct (has_guard IfNoChanges (t_libcst tb)) eqn:G; [|exact I].
  intros tree parse code T S R diff W fsel X u le Good Ks Hr Ht Hk HT cfg fs stores p b Hp Hb Hg.
  pose proof (lift_rel tb tree parse code T S R diff W fsel
                (fun b' b => Good b -> le (u b') (u b) /\ Good b')
                (fun b H => conj (Hr (u b)) H)
                (fun a b c H1 H2 H => let (L2, G2) := H2 H in let (L1, G1) := H1 G2 in conj (Ht _ _ _ L1 L2) G1)
                (fun K => In K Ks)) as HL.
  assert (H : opt_rel (fun b' b => Good b -> le (u b') (u b) /\ Good b')
                (lookup fs p) (lookup (final_fs (run tb tree parse code T S R diff W fsel cfg Ks fs stores)) p)).
  { apply HL; auto.
    - intros K HK. rewrite (Hk K HK). exact G.
    - intros K b0 t fi t' chs ds HK Hp0 HT0 Hg0. rewrite (Hk K HK) in *. exact (HT K b0 t fi t' chs ds HK Hg0 Hp0 HT0). }
  rewrite Hb in H. destruct (lookup (final_fs _) p) as [b'|]; simpl in H; [|contradiction].
  destruct (H Hg) as [A B]. eauto.
Qed.
Theorem C02_lift : C02_lift_statement run_tables_v.
Proof. exact (C02_lift_all run_tables_v). Qed.

(** C07 (lemma): on a tree whose selected files are quiet for (detector, transformer) of [K], a run of [K] is a no-op. *)
Definition C07_quiet_statement (tb : run_tables) : Prop :=
  if libcst_nochange_guarded tb then
    forall (tree : Type) parse code T S R diff W fsel (cfg : config) (K : codemod) (fs : fsys) (stores : list store),
      cpipe K = PLibcst ->
      (forall p b, lookup fs p = Some b -> quiet tb tree parse code T diff K (local_findings S R K p b) b) ->
      final_fs (run tb tree parse code T S R diff W fsel cfg [K] fs stores) = fs /\
      forall s, run tb tree parse code T S R diff W fsel cfg [K] fs stores = Ok s ->
        s_fs s = fs /\ s_stores s = stores /\
        (forall k, dgetl k (s_cs s) = []) /\ (forall k, dgetl k (s_deps s) = [])
  else True.
Lemma C07_quiet_all tb : C07_quiet_statement tb.
Proof.
  unfold C07_quiet_statement, libcst_nochange_guarded. destruct (has_guard IfNoChanges (t_libcst tb)) eqn:G; [|exact I].
  intros tree parse code T S R diff W fsel cfg K fs stores Hk Hq. apply quiet_run; [rewrite Hk; exact G|exact Hq].
Qed.
Theorem C07_quiet_run : C07_quiet_statement run_tables_v.
Proof. exact (C07_quiet_all run_tables_v). Qed.

(** C07: run [K] (a real, non-dry run), then run [K] again on what the first run left (a fresh invocation: any stores):
    the second run writes no file, no manifest, reports no change set and requests no dependency.
    Contracts (explicit premises): round trip of the printer/parser; no dependency without a reported rewrite; local
    idempotence of (detector, transformer) of [K] on ONE file.  Side conditions: distinct paths in the cached file lists,
    semgrep-detected codemods are find-and-fix, no manifest is a source file selected by [K].
    _partial w.r.t. the property: the three contracts are oracle contracts (kernel theorems / tested), and a manifest
    that is also a selected source (setup.py) is excluded. *)
Definition C07_lift_statement (tb : run_tables) : Prop :=
  if libcst_nochange_guarded tb then
    forall (tree : Type) parse code T S R diff W fsel (cfg : config) (K : codemod),
      cpipe K = PLibcst -> dry_run cfg = false -> NoDup (ff_paths cfg) -> NoDup (all_files cfg) ->
      (cdet K = DSemgrep -> cbase K = FindAndFix) ->
      (forall t, parse PLibcst (code PLibcst t) = Some t) ->
      (forall b t fi t' chs ds, T K t fi = Changed t' chs ds ->
         (chs = [] \/ (has_guard IfNoDiff (t_libcst tb) = true /\
                       diff (diff_base tb tree code PLibcst b t) (code PLibcst t') = [])) -> ds = []) ->
      (forall p t fi t' chs ds, T K t fi = Changed t' chs ds -> chs <> [] ->
         match T K t' (local_findings S R K p (code PLibcst t')) with
         | Raise | NoChange => True
         | Changed t'' chs' ds' =>
             ds' = [] /\ (chs' = [] \/ (has_guard IfNoDiff (t_libcst tb) = true /\
                                         diff (diff_base tb tree code PLibcst (code PLibcst t') t') (code PLibcst t'') = []))
         end) ->
      forall (fs : fsys) (stores stores2 : list store),
        (forall st, In st stores -> fsel K (st_path st) = false) ->
        let fs1 := final_fs (run tb tree parse code T S R diff W fsel cfg [K] fs stores) in
        final_fs (run tb tree parse code T S R diff W fsel cfg [K] fs1 stores2) = fs1 /\
        forall s, run tb tree parse code T S R diff W fsel cfg [K] fs1 stores2 = Ok s ->
          s_fs s = fs1 /\ s_stores s = stores2 /\ (forall k, dgetl k (s_cs s) = []) /\ (forall k, dgetl k (s_deps s) = [])
  else True.
Lemma C07_lift_all tb : C07_lift_statement tb.
Proof.
  unfold C07_lift_statement, libcst_nochange_guarded. destruct (has_guard IfNoChanges (t_libcst tb)) eqn:G; [|exact I].
  intros tree parse code T S R diff W fsel cfg K Hk Hwet Hn1 Hn2 Hsh Hrt Hnodep Hidem fs stores stores2 Hman.
  apply (two_runs_noop tb tree parse code T S R diff W fsel cfg K); rewrite ?Hk; auto.
Qed.
Theorem C07_lift : C07_lift_statement run_tables_v.
Proof. exact (C07_lift_all run_tables_v). Qed.

(** The positive branch is the one taken on the current tables (a statement that reduces to True proves nothing). *)
Example lift_statements_positive : libcst_nochange_guarded run_tables_v = true.
Proof. reflexivity. Qed.

Print Assumptions C03_unchanged.
Print Assumptions C01_lift.
Print Assumptions C02_lift.
Print Assumptions C07_quiet_run.
Print Assumptions C07_lift.

(** Non-vacuity: the toy transformers satisfy the local contract of C01 (toy "parses" = does not start with 255);
    a first toy run followed by a second one: the second changes nothing. *)
Example lift_example_contract :
  forall K b t fi t' chs ds, toy_parse (cpipe K) b = Some t -> toy_T K t fi = Changed t' chs ds ->
    toy_parse PLibcst b <> None -> toy_parse PLibcst (toy_code (cpipe K) t') <> None.
Proof.
  intros K b t fi t' chs ds Hp HT _. unfold toy_T in HT.
  destruct t as [|x r]; [discriminate|].
  destruct x as [|x]; [discriminate|]. unfold toy_parse, toy_code.
  repeat (destruct x as [x|x|]; try discriminate; try (inversion HT; subst; discriminate)).
Qed.
Example lift_example_second_run :
  let K := toy_codemod 1 PLibcst DNone in
  let fs1 := final_fs (toy_run tables_pinned (toy_cfg false [[97%N]; [98%N]]) [K] [([97%N], [1%N]); ([98%N], [5%N])] []) in
  lookup fs1 [97%N] = Some [2%N] /\
  final_fs (toy_run tables_pinned (toy_cfg false [[97%N]; [98%N]]) [K] fs1 []) = fs1.
Proof. vm_compute. split; reflexivity. Qed.
