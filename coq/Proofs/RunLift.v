(** Lifting lemmas: from a LOCAL contract of each transformer on one file to every run (any codemod list, any
    option set, any project), cited by C01 (still parses), C02 (unresolved names do not grow), C07 (second run is a
    no-op), and C03_unchanged (no change set for a path => its content is unchanged).

    All statements are closed: the oracles and their contracts are explicit premises.  Those that depend on how the
    pipelines are written are indexed by the guard tables: they need `if not <changes>: return None` in every pipeline
    ([nochange_guarded]), otherwise a NoChange outcome could re-emit `code` of the unchanged tree. *)
From CM Require Import Base.Dict Model.Run Spec.RunSpec Proofs.DictFacts Proofs.RunFacts Proofs.RunSteps Proofs.C10Facts
  Generated.Tables.

Definition nochange_guarded (tb : run_tables) : bool :=
  forallb (fun k => has_guard IfNoChanges (guards_of tb k)) all_pipes.
Lemma nochange_guarded_k tb k : nochange_guarded tb = true -> has_guard IfNoChanges (guards_of tb k) = true.
Proof.
  unfold nochange_guarded, all_pipes. simpl. rewrite !andb_true_iff. intros [H1 [H2 [H3 _]]]. destruct k; assumption.
Qed.

Definition opt_rel (Rel : bytes -> bytes -> Prop) (old new : option bytes) : Prop :=
  match old, new with
  | Some b, Some b' => Rel b' b
  | None, None => True
  | _, _ => False
  end.

Section Lift.
  Variable tb : run_tables.
  Variable tree : Type.
  Variable parse : pipe_kind -> bytes -> option tree.
  Variable code : pipe_kind -> tree -> bytes.
  Variable T : codemod -> tree -> option (list finding) -> outcome tree.
  Variable S : codemod -> path -> bytes -> list finding.
  Variable R : codemod -> list (path * list finding).
  Variable diff : bytes -> bytes -> str.
  Variable W : skind -> option bytes -> list dep -> option (bytes * str * list change).
  Variable fsel : codemod -> path -> bool.

  Local Notation fstep := (file_step tb tree parse code T diff).
  Local Notation pfile := (process_file tb tree parse code T diff).
  Local Notation mfiles := (map_files tb tree parse code T diff).
  Local Notation acodemod := (apply_codemod tb tree parse code T S R diff fsel).
  Local Notation pdeps := (process_dependencies tb W).
  Local Notation acodemods := (apply_codemods tb tree parse code T S R diff W fsel).
  Local Notation mrun := (run tb tree parse code T S R diff W fsel).

  (** ---- C03_unchanged ---- *)
  Lemma unchanged_no_changeset cfg Ks fs stores s' p :
    mrun cfg Ks fs stores = Ok s' ->
    (forall k cs, In cs (dgetl k (s_cs s')) -> cs_path cs <> p) ->
    lookup (s_fs s') p = lookup fs p.
  Proof.
    intros Hr Hno. unfold run in Hr. destruct (all_files cfg).
    - inversion Hr; subst. reflexivity.
    - destruct (acodemods_changed tb tree parse code T S R diff W fsel cfg _ Ks _ _ p Hr) as [[H|[k [cs [H1 H2]]]] _].
      + exact H.
      + exfalso. exact (Hno k cs H1 H2).
  Qed.

  (** ---- a preorder-like relation on contents is preserved along any run ---- *)
  Variable Rel : bytes -> bytes -> Prop.      (* Rel new old *)
  Hypothesis Rel_refl : forall b, Rel b b.
  Hypothesis Rel_trans : forall a b c, Rel c b -> Rel b a -> Rel c a.
  Hypothesis Hguard : nochange_guarded tb = true.
  (** the local contract: what a transformer returns for a file relates to that file's text *)
  Hypothesis HT : forall K b t fi t' chs ds,
    parse (cpipe K) b = Some t -> T K t fi = Changed t' chs ds -> Rel (code (cpipe K) t') b.

  Definition fs_rel (excl : list path) (fs fs' : fsys) : Prop :=
    forall q, ~ In q excl -> opt_rel Rel (lookup fs q) (lookup fs' q).

  Lemma opt_rel_refl o : opt_rel Rel o o.
  Proof. destruct o; simpl; auto. Qed.
  Lemma opt_rel_trans a b c : opt_rel Rel a b -> opt_rel Rel b c -> opt_rel Rel a c.
  Proof. destruct a, b, c; simpl; try tauto. intros H1 H2. eapply Rel_trans; eauto. Qed.
  Lemma fs_rel_refl excl fs : fs_rel excl fs fs.
  Proof. intros q _. apply opt_rel_refl. Qed.
  Lemma fs_rel_trans excl a b c : fs_rel excl a b -> fs_rel excl b c -> fs_rel excl a c.
  Proof. intros H1 H2 q Hq. eapply opt_rel_trans; [apply H1|apply H2]; exact Hq. Qed.

  Lemma pfile_rel cfg K res fs p excl : fs_rel excl fs (snd (pfile cfg K res fs p)).
  Proof.
    intros q _. rewrite pfile_snd. destruct (snd (fstep cfg K res p (lookup fs p))) as [b'|] eqn:Ew; [|apply opt_rel_refl].
    destruct (str_eqb_spec q p) as [->|Hne]; [|rewrite lookup_fwrite_other by exact Hne; apply opt_rel_refl].
    rewrite lookup_fwrite_same. apply fstep_write in Ew. destruct Ew as [_ [b [t [Hc [Hp Hcase]]]]].
    rewrite Hc. simpl. destruct Hcase as [[_ [_ Hg]]|[t' [chs [ds [HTe ->]]]]].
    - rewrite (nochange_guarded_k tb (cpipe K) Hguard) in Hg. discriminate.
    - eapply HT; eauto.
  Qed.

  Lemma mfiles_rel cfg K res excl : forall files fs, fs_rel excl fs (snd (mfiles cfg K res fs files)).
  Proof.
    induction files as [|p rest IH]; intros fs; [apply fs_rel_refl|].
    rewrite mfiles_cons. cbn [snd]. eapply fs_rel_trans; [apply pfile_rel|apply IH].
  Qed.

  Lemma acodemod_rel cfg pre K s s' excl :
    acodemod cfg pre K s = Ok s' \/ acodemod cfg pre K s = Aborted s' -> fs_rel excl (s_fs s) (s_fs s').
  Proof.
    intros H. destruct (acodemod_cases tb tree parse code T S R diff fsel cfg pre K s) as [E|[res [files [_ [_ [_ E]]]]]];
      rewrite E in H.
    - destruct H as [H|H]; inversion H; subst; apply fs_rel_refl.
    - apply presults_fs in H. destruct H as [H _]. rewrite H. simpl. apply mfiles_rel.
  Qed.

  Lemma pdeps_rel cfg id s excl :
    (forall q, In q (map st_path (s_stores s)) -> In q excl) ->
    fs_rel excl (s_fs s) (s_fs (pdeps cfg id s)) /\
    map st_path (s_stores (pdeps cfg id s)) = map st_path (s_stores s).
  Proof.
    intros Hex. unfold process_dependencies. destruct (dgetl id (s_deps s)) as [|d0 ds0]; [split; [apply fs_rel_refl|reflexivity]|].
    destruct (s_stores s) eqn:Es; [split; [apply fs_rel_refl|reflexivity]|]. rewrite <- Es in *.
    assert (Hf : fs_rel excl (s_fs s) (snd (fst (try_stores tb W cfg (d0 :: ds0) (s_fs s) (s_stores s))))).
    { intros q Hq. rewrite (tstores_frame tb W); [apply opt_rel_refl|]. intros Hin. apply Hq. now apply Hex. }
    destruct (snd (try_stores tb W cfg (d0 :: ds0) (s_fs s) (s_stores s))); simpl; (split; [exact Hf|apply (tstores_paths tb W)]).
  Qed.

  Lemma acodemods_rel cfg pre excl Ks : forall s r,
    (forall q, In q (map st_path (s_stores s)) -> In q excl) ->
    acodemods cfg pre Ks s = r -> fs_rel excl (s_fs s) (final_fs r).
  Proof.
    induction Ks as [|K rest IH]; intros s r Hex Hr; simpl in Hr.
    - subst. apply fs_rel_refl.
    - destruct (acodemod cfg pre K s) as [s1|s1] eqn:E.
      + pose proof (acodemod_frame tb tree parse code T S R diff fsel _ _ _ _ _ (or_introl E)) as [St1 _].
        destruct (pdeps_rel cfg (cid K) s1 excl) as [H2 H3]; [now rewrite St1|].
        eapply fs_rel_trans; [eapply acodemod_rel; left; exact E|].
        eapply fs_rel_trans; [exact H2|]. apply (IH _ _ ) in Hr; [exact Hr|]. now rewrite H3, St1.
      + subst. simpl. eapply acodemod_rel. right. exact E.
  Qed.

  (** every path that is not a manifest: the final content is related to the initial one (and no file appears or
      disappears), whether the run completes or aborts *)
  Lemma lift_rel cfg Ks fs stores p :
    ~ In p (map st_path stores) ->
    opt_rel Rel (lookup fs p) (lookup (final_fs (mrun cfg Ks fs stores)) p).
  Proof.
    intros Hp. unfold run. destruct (all_files cfg); [apply opt_rel_refl|].
    pose proof (acodemods_rel cfg (prefilter_of S cfg Ks fs) (map st_path stores) Ks (init_state fs stores) _
                  (fun q H => H) eq_refl) as H.
    apply H. exact Hp.
  Qed.
End Lift.

(** ---- the second run of a codemod on "quiet" content writes nothing and reports nothing (C07) ---- *)
Section Quiet.
  Variable tb : run_tables.
  Variable tree : Type.
  Variable parse : pipe_kind -> bytes -> option tree.
  Variable code : pipe_kind -> tree -> bytes.
  Variable T : codemod -> tree -> option (list finding) -> outcome tree.
  Variable S : codemod -> path -> bytes -> list finding.
  Variable R : codemod -> list (path * list finding).
  Variable diff : bytes -> bytes -> str.
  Variable W : skind -> option bytes -> list dep -> option (bytes * str * list change).
  Variable fsel : codemod -> path -> bool.

  (** the findings the detector of [K] hands to the transformer for a file with content [b] (when it hands any) *)
  Definition local_findings (K : codemod) (p : path) (b : bytes) : option (list finding) :=
    match cdet K with
    | DNone => None
    | DSemgrep => Some (S K p b)
    | DSast => Some (res_get (R K) p)
    end.

  (** LOCAL: applied to content [b] with findings [fi], the transformer of [K] reports nothing new:
      no dependency, and either no change or (where the pipeline tests it) an empty diff *)
  Definition quiet (K : codemod) (fi : option (list finding)) (b : bytes) : Prop :=
    match parse (cpipe K) b with
    | None => True
    | Some t =>
        match T K t fi with
        | Raise | NoChange => True
        | Changed t' chs ds =>
            ds = [] /\ (chs = [] \/ (has_guard IfNoDiff (guards_of tb (cpipe K)) = true /\
                                     diff (diff_base tb tree code (cpipe K) b t) (code (cpipe K) t') = []))
        end
    end.

  Hypothesis Hguard : nochange_guarded tb = true.

  Lemma quiet_step cfg K res p c :
    (forall b, c = Some b -> findings_for res p <> Some [] -> quiet K (findings_for res p) b) ->
    snd (file_step tb tree parse code T diff cfg K res p c) = None /\
    (fst (file_step tb tree parse code T diff cfg K res p c) = FCrash \/
     exists cx, fst (file_step tb tree parse code T diff cfg K res p c) = FCtx cx /\ fc_cs cx = [] /\ fc_deps cx = []).
  Proof.
    intros Hq. unfold file_step. destruct (findings_for res p) as [[|f l]|] eqn:Ef.
    - split; [reflexivity|right; eexists; split; [reflexivity|split; reflexivity]].
    - assert (Hq' : forall b, c = Some b -> quiet K (Some (f :: l)) b) by (intros b Hb; apply Hq; [exact Hb|discriminate]).
      clear Hq. cbn [fst snd]. unfold pipeline_apply; cbv zeta.
      rewrite (nochange_guarded_k tb (cpipe K) Hguard).
      destruct c as [b|]; [|destruct (has_guard TryParse _); simpl; split; auto; right; eexists; split; [reflexivity|split; reflexivity]].
      specialize (Hq' b eq_refl). unfold quiet in Hq'.
      destruct (parse (cpipe K) b) as [t|]; [|destruct (has_guard TryParse _); simpl; split; auto; right; eexists; split; [reflexivity|split; reflexivity]].
      destruct (T K t (Some (f :: l))) as [| |t' chs ds].
      + destruct (has_guard TryTransform _); simpl; split; auto; right; eexists; split; [reflexivity|split; reflexivity].
      + simpl. split; auto. right; eexists; split; [reflexivity|split; reflexivity].
      + destruct Hq' as [-> [->|[Hg Hd]]].
        * simpl. split; auto. right; eexists; split; [reflexivity|split; reflexivity].
        * cbv beta iota. rewrite Hg, Hd. destruct (true && is_nil chs); simpl; (split; [reflexivity|]);
            right; eexists; (split; [reflexivity|split; reflexivity]).
    - assert (Hq' : forall b, c = Some b -> quiet K None b) by (intros b Hb; apply Hq; [exact Hb|discriminate]).
      clear Hq. cbn [fst snd]. unfold pipeline_apply; cbv zeta.
      rewrite (nochange_guarded_k tb (cpipe K) Hguard).
      destruct c as [b|]; [|destruct (has_guard TryParse _); simpl; split; auto; right; eexists; split; [reflexivity|split; reflexivity]].
      specialize (Hq' b eq_refl). unfold quiet in Hq'.
      destruct (parse (cpipe K) b) as [t|]; [|destruct (has_guard TryParse _); simpl; split; auto; right; eexists; split; [reflexivity|split; reflexivity]].
      destruct (T K t None) as [| |t' chs ds].
      + destruct (has_guard TryTransform _); simpl; split; auto; right; eexists; split; [reflexivity|split; reflexivity].
      + simpl. split; auto. right; eexists; split; [reflexivity|split; reflexivity].
      + destruct Hq' as [-> [->|[Hg Hd]]].
        * simpl. split; auto. right; eexists; split; [reflexivity|split; reflexivity].
        * cbv beta iota. rewrite Hg, Hd. destruct (true && is_nil chs); simpl; (split; [reflexivity|]);
            right; eexists; (split; [reflexivity|split; reflexivity]).
  Qed.

  (** what the detector hands over for a file is either nothing-to-do or the local findings *)
  Lemma res_get_scan K fs scope p :
    res_get (semgrep_scan S K fs scope) p = [] \/ res_get (semgrep_scan S K fs scope) p = findings_at S K fs p.
  Proof.
    unfold semgrep_scan, res_get. induction scope as [|q r IH]; simpl; [now left|].
    destruct (findings_at S K fs q) as [|f l] eqn:E; simpl; [exact IH|].
    destruct (str_eqb_spec p q) as [->|Hne]; [right; now rewrite E | exact IH].
  Qed.

  Lemma findings_local cfg K pre fs p b : lookup fs p = Some b ->
    findings_for (detect S R cfg K pre fs) p = Some [] \/ findings_for (detect S R cfg K pre fs) p = local_findings K p b.
  Proof.
    intros Hb. unfold detect, local_findings, findings_for. destruct (cdet K); [now right| |now right].
    match goal with |- context [semgrep_scan S K fs ?sc] => destruct (res_get_scan K fs sc p) as [H|H] end; rewrite H;
      [now left|right]. unfold findings_at. now rewrite Hb.
  Qed.

  Lemma quiet_files cfg K res : forall files fs s,
    (forall p b, lookup fs p = Some b -> findings_for res p <> Some [] -> quiet K (findings_for res p) b) ->
    snd (map_files tb tree parse code T diff cfg K res fs files) = fs /\
    forall s', process_results (cid K) (fst (map_files tb tree parse code T diff cfg K res fs files)) s = Ok s' ->
               (forall k, dgetl k (s_cs s') = dgetl k (s_cs s)) /\ (forall k, dgetl k (s_deps s') = dgetl k (s_deps s)).
  Proof.
    induction files as [|p rest IH]; intros fs s Hq.
    - simpl. split; [reflexivity|]. intros s' [= <-]. auto.
    - rewrite mfiles_cons. cbn [fst snd]. rewrite pfile_snd, pfile_fst.
      destruct (quiet_step cfg K res p (lookup fs p)) as [Hw Hc]; [intros b Hb; now apply Hq|].
      rewrite Hw. destruct (IH fs s Hq) as [Hfs _]. split; [exact Hfs|].
      intros s' Hs'. destruct Hc as [Hc|[cx [Hc [H1 H2]]]]; rewrite Hc in Hs'; cbn [process_results] in Hs'; [discriminate|].
      destruct (IH fs (merge_ctx (cid K) cx s) Hq) as [_ Hagg]. destruct (Hagg s' Hs') as [A B].
      split; intros k.
      + rewrite A. simpl. rewrite dgetl_dext, H1, app_nil_r. now destruct (str_eqb k (cid K)).
      + rewrite B. simpl. destruct (str_eqb_spec k (cid K)) as [->|Hne].
        * now rewrite dgetl_dunion_same, H2.
        * now rewrite dgetl_dunion_other.
  Qed.

  Lemma quiet_run cfg K fs stores :
    (forall p b, lookup fs p = Some b -> quiet K (local_findings K p b) b) ->
    final_fs (run tb tree parse code T S R diff W fsel cfg [K] fs stores) = fs /\
    forall s, run tb tree parse code T S R diff W fsel cfg [K] fs stores = Ok s ->
      s_fs s = fs /\ s_stores s = stores /\
      (forall k, dgetl k (s_cs s) = []) /\ (forall k, dgetl k (s_deps s) = []).
  Proof.
    intros Hq. unfold run. destruct (all_files cfg) as [|f0 fl]; [split; [reflexivity|intros s [= <-]; repeat split; reflexivity]|].
    set (pre := prefilter_of S cfg [K] fs). set (s0 := init_state fs stores). cbn [apply_codemods].
    assert (HA : (apply_codemod tb tree parse code T S R diff fsel cfg pre K s0 = Ok s0) \/
                 (exists s1, apply_codemod tb tree parse code T S R diff fsel cfg pre K s0 = Aborted s1 /\ s_fs s1 = fs) \/
                 (exists s1, apply_codemod tb tree parse code T S R diff fsel cfg pre K s0 = Ok s1 /\ s_fs s1 = fs /\
                             s_stores s1 = stores /\ (forall k, dgetl k (s_cs s1) = []) /\ (forall k, dgetl k (s_deps s1) = []))).
    { destruct (acodemod_cases tb tree parse code T S R diff fsel cfg pre K s0) as [E|[res [files [_ [Hres [_ E]]]]]]; [now left|].
      right. rewrite E.
      destruct (quiet_files cfg K res files fs (with_fs s0 (snd (map_files tb tree parse code T diff cfg K res fs files)))) as [Hfs Hagg].
      { intros p b Hb Hne. subst res. destruct (findings_local cfg K pre fs p b Hb) as [H|H]; [contradiction|].
        change (s_fs s0) with fs. rewrite H. now apply Hq. }
      change (s_fs s0) with fs.
      destruct (process_results (cid K) _ _) as [s1|s1] eqn:Ep.
      - right. exists s1. split; [reflexivity|]. pose proof (presults_fs _ _ _ _ (or_introl Ep)) as [F [St _]].
        destruct (Hagg s1 eq_refl) as [A B]. simpl in *. rewrite F, St, Hfs. repeat split; auto.
      - left. exists s1. split; [reflexivity|]. pose proof (presults_fs _ _ _ _ (or_intror Ep)) as [F _].
        rewrite F. simpl. exact Hfs. }
    destruct HA as [E|[[s1 [E F]]|[s1 [E [F [St [A B]]]]]]]; rewrite E.
    - assert (Hp : process_dependencies tb W cfg (cid K) s0 = s0) by reflexivity. rewrite Hp.
      split; [reflexivity|]. intros s [= <-]. repeat split; reflexivity.
    - split; [exact F|]. intros s Hs. discriminate.
    - assert (Hp : process_dependencies tb W cfg (cid K) s1 = s1).
      { unfold process_dependencies. now rewrite B. }
      rewrite Hp. split; [exact F|]. intros s [= <-]. repeat split; auto.
  Qed.
End Quiet.

(** ================= closed statements, indexed by the tables ================= *)
Definition C03_unchanged_statement : Prop :=
  forall (tb : run_tables) (tree : Type) parse code T S R diff W fsel (cfg : config) (Ks : list codemod) (fs : fsys)
         (stores : list store) (s' : state) (p : path),
    run tb tree parse code T S R diff W fsel cfg Ks fs stores = Ok s' ->
    (forall k cs, In cs (dgetl k (s_cs s')) -> cs_path cs <> p) ->
    lookup (s_fs s') p = lookup fs p.
Theorem C03_unchanged : C03_unchanged_statement.
Proof. exact unchanged_no_changeset. Qed.

(** C01: if every transformer maps text that parses to text that parses, then after ANY run every non-manifest file
    that parsed before parses after (and exists iff it existed). *)
Definition C01_lift_statement (tb : run_tables) : Prop :=
  if nochange_guarded tb then
    forall (tree : Type) parse code T S R diff W fsel,
      (forall K b t fi t' chs ds, parse (cpipe K) b = Some t -> T K t fi = Changed t' chs ds ->
         parse PLibcst b <> None -> parse PLibcst (code (cpipe K) t') <> None) ->
      forall (cfg : config) (Ks : list codemod) (fs : fsys) (stores : list store) (p : path) (b : bytes),
        ~ In p (map st_path stores) -> lookup fs p = Some b -> parse PLibcst b <> None ->
        exists b', lookup (final_fs (run tb tree parse code T S R diff W fsel cfg Ks fs stores)) p = Some b' /\
                   parse PLibcst b' <> None
  else True.
Lemma C01_lift_all tb : C01_lift_statement tb.
Proof.
  unfold C01_lift_statement. destruct (nochange_guarded tb) eqn:G; [|exact I].
  intros tree parse code T S R diff W fsel HT cfg Ks fs stores p b Hp Hb Hpar.
  pose proof (lift_rel tb tree parse code T S R diff W fsel
                (fun b' b => parse PLibcst b <> None -> parse PLibcst b' <> None)
                (fun _ H => H) (fun a b c H1 H2 H => H1 (H2 H)) G HT cfg Ks fs stores p Hp) as H.
  rewrite Hb in H. destruct (lookup (final_fs _) p) as [b'|]; simpl in H; [|contradiction]. eauto.
Qed.
Theorem C01_lift : C01_lift_statement run_tables_v.
Proof. exact (C01_lift_all run_tables_v). Qed.

(** C02: a preorder [le] on an abstract measure [u] of file text (e.g. the set of unresolved names under inclusion)
    is preserved along any run if each transformer preserves it. *)
Definition C02_lift_statement (tb : run_tables) : Prop :=
  if nochange_guarded tb then
    forall (tree : Type) parse code T S R diff W fsel (X : Type) (u : bytes -> X) (le : X -> X -> Prop),
      (forall x, le x x) -> (forall x y z, le x y -> le y z -> le x z) ->
      (forall K b t fi t' chs ds, parse (cpipe K) b = Some t -> T K t fi = Changed t' chs ds ->
         le (u (code (cpipe K) t')) (u b)) ->
      forall (cfg : config) (Ks : list codemod) (fs : fsys) (stores : list store) (p : path) (b : bytes),
        ~ In p (map st_path stores) -> lookup fs p = Some b ->
        exists b', lookup (final_fs (run tb tree parse code T S R diff W fsel cfg Ks fs stores)) p = Some b' /\
                   le (u b') (u b)
  else True.
Lemma C02_lift_all tb : C02_lift_statement tb.
Proof.
  unfold C02_lift_statement. destruct (nochange_guarded tb) eqn:G; [|exact I].
  intros tree parse code T S R diff W fsel X u le Hr Ht HT cfg Ks fs stores p b Hp Hb.
  pose proof (lift_rel tb tree parse code T S R diff W fsel (fun b' b => le (u b') (u b))
                (fun b => Hr (u b)) (fun a b c H1 H2 => Ht _ _ _ H1 H2) G HT cfg Ks fs stores p Hp) as H.
  rewrite Hb in H. destruct (lookup (final_fs _) p) as [b'|]; simpl in H; [|contradiction]. eauto.
Qed.
Theorem C02_lift : C02_lift_statement run_tables_v.
Proof. exact (C02_lift_all run_tables_v). Qed.

(** C07: if, for every file, the content found by a run of [K] is quiet for (detector, transformer) of [K] — which is
    what local idempotence gives for the output of a first run — then that run writes no file, no manifest, and
    reports no change set and no dependency. *)
Definition C07_lift_statement (tb : run_tables) : Prop :=
  if nochange_guarded tb then
    forall (tree : Type) parse code T S R diff W fsel (cfg : config) (K : codemod) (fs : fsys) (stores : list store),
      (forall p b, lookup fs p = Some b -> quiet tb tree parse code T diff K (local_findings S R K p b) b) ->
      final_fs (run tb tree parse code T S R diff W fsel cfg [K] fs stores) = fs /\
      forall s, run tb tree parse code T S R diff W fsel cfg [K] fs stores = Ok s ->
        s_fs s = fs /\ s_stores s = stores /\
        (forall k, dgetl k (s_cs s) = []) /\ (forall k, dgetl k (s_deps s) = [])
  else True.
Lemma C07_lift_all tb : C07_lift_statement tb.
Proof.
  unfold C07_lift_statement. destruct (nochange_guarded tb) eqn:G; [|exact I].
  intros. now apply quiet_run.
Qed.
Theorem C07_lift : C07_lift_statement run_tables_v.
Proof. exact (C07_lift_all run_tables_v). Qed.

Print Assumptions C03_unchanged.
Print Assumptions C01_lift.
Print Assumptions C02_lift.
Print Assumptions C07_lift.

(** Non-vacuity: the toy transformers satisfy the local contract of C01 (toy "parses" = does not start with 255);
    a first toy run followed by a second one: the second changes nothing. *)
Example lift_example_contract :
  forall K b t fi t' chs ds, toy_parse (cpipe K) b = Some t -> toy_T K t fi = Changed t' chs ds ->
    toy_parse PLibcst b <> None -> toy_parse PLibcst (toy_code (cpipe K) t') <> None.
Proof.
  intros K b t fi t' chs ds Hp HT _. unfold toy_T in HT.
  destruct t as [|x r]; [discriminate|].
  destruct x as [|x]; [discriminate|]. unfold toy_parse, toy_code.
  repeat (destruct x as [x|x|]; try discriminate; try (inversion HT; subst; discriminate)).
Qed.
Example lift_example_second_run :
  let K := toy_codemod 1 PLibcst DNone in
  let fs1 := final_fs (toy_run tables_pinned (toy_cfg false [[97%N]; [98%N]]) [K] [([97%N], [1%N]); ([98%N], [5%N])] []) in
  lookup fs1 [97%N] = Some [2%N] /\
  final_fs (toy_run tables_pinned (toy_cfg false [[97%N]; [98%N]]) [K] fs1 []) = fs1.
Proof. vm_compute. split; reflexivity. Qed.
