(** Model of the per-file scheduling of one codemod (base_codemod._apply / _process_file, context.process_results),
    of the bounded thread pool, of the order in which codemod collections are registered
    (registry.load_registered_codemods / match_codemods, default branch) and of the order of the matched paths
    (code_directory.match_files).  Definitions only. *)
From CM Require Export Base.Dict Base.Types_Sched.

(* ------------------------------------------------------------------------------------------------ *)
(** * File system, per-file results *)
Definition path := str.
Definition content := str.
Definition fsys := dict path content.
Definition lookup (fs : fsys) (p : path) : option content := dget str_eqb p fs.
Definition write (fs : fsys) (p : path) (c : content) : fsys := dset str_eqb p c fs.

(** What a FileContext carries back to the run context (timing erased). *)
Record fres := { r_changesets : list str; r_failures : list str; r_deps : list str; r_unfixed : list str }.
Definition fres_empty : fres := {| r_changesets := []; r_failures := []; r_deps := []; r_unfixed := [] |}.

(** set.update on an insertion-ordered representation *)
Definition set_union (a b : list str) : list str :=
  fold_left (fun acc d => if mem_str d acc then acc else acc ++ [d]) b a.

(** context.process_results, one FileContext: add_changesets / add_failures / add_dependencies / add_unfixed_findings *)
Definition fres_add (a r : fres) : fres :=
  {| r_changesets := r_changesets a ++ r_changesets r;
     r_failures := r_failures a ++ r_failures r;
     r_deps := set_union (r_deps a) (r_deps r);
     r_unfixed := r_unfixed a ++ r_unfixed r |}.

(** Oracles.  The detector runs ONCE, on the project as it is before the pool starts (self.detector.apply);
    the transformer pipeline of a file sees the file's path, its findings and the text READ from the file
    ([None]: the file cannot be read/decoded/parsed).  Its answer: the new text if it rewrites, and the FileContext. *)
Definition findings := list N.
Definition outcome := (option content * fres)%type.
Definition detector := fsys -> path -> findings.
Definition transformer := path -> findings -> option content -> outcome.

(* ------------------------------------------------------------------------------------------------ *)
(** * Tasks, events, schedules *)
Inductive ev := Read (i : nat) | Compute (i : nat) | Write (i : nat).
Definition ev_task (e : ev) : nat := match e with Read i | Compute i | Write i => i end.
Definition ev_eqb (a b : ev) : bool :=
  match a, b with
  | Read i, Read j | Compute i, Compute j | Write i, Write j => Nat.eqb i j
  | _, _ => false
  end.

(** _process_file of the i-th file: read it, run the pipeline on what was read, write it back (a no-op
    unless the pipeline produced a new text). *)
Definition task_evs (i : nat) : list ev := [Read i; Compute i; Write i].
Definition tasks (n : nat) : list (list ev) := map task_evs (seq 0 n).

Fixpoint upd {A} (l : list A) (i : nat) (x : A) : list A :=
  match l, i with
  | [], _ => []
  | _ :: r, O => x :: r
  | y :: r, S j => y :: upd r j x
  end.

(** [interleaving ls tr]: [tr] is obtained by repeatedly taking the head of one of the lists, until all are empty.
    Every execution of the tasks by any number of threads, under any scheduler, is such a trace. *)
Inductive interleaving {A} : list (list A) -> list A -> Prop :=
| il_nil : forall ls, (forall l, In l ls -> l = []) -> interleaving ls []
| il_pick : forall ls i x l tr,
    nth_error ls i = Some (x :: l) -> interleaving (upd ls i l) tr -> interleaving ls (x :: tr).

(** Decidable form for traces whose events name their task (used on observed schedules). *)
Fixpoint check_il (ls : list (list ev)) (tr : list ev) : bool :=
  match tr with
  | [] => forallb (fun l => match l with [] => true | _ => false end) ls
  | e :: r =>
      match nth_error ls (ev_task e) with
      | Some (x :: l) => ev_eqb x e && check_il (upd ls (ev_task e) l) r
      | _ => false
      end
  end.

(** State: the shared file system and, per task, what it has read and what it has computed
    (thread-local: the FileContext and the trees of _process_file). *)
Record state := { st_fs : fsys; st_rd : dict nat (option content); st_out : dict nat outcome }.
Definition init (fs0 : fsys) : state := {| st_fs := fs0; st_rd := []; st_out := [] |}.

Definition step (files : list path) (T : transformer) (fnd : path -> findings) (st : state) (e : ev) : state :=
  match e with
  | Read i =>
      match nth_error files i with
      | Some p => {| st_fs := st_fs st; st_rd := dset Nat.eqb i (lookup (st_fs st) p) (st_rd st); st_out := st_out st |}
      | None => st
      end
  | Compute i =>
      match nth_error files i, dget Nat.eqb i (st_rd st) with
      | Some p, Some c => {| st_fs := st_fs st; st_rd := st_rd st; st_out := dset Nat.eqb i (T p (fnd p) c) (st_out st) |}
      | _, _ => st
      end
  | Write i =>
      match nth_error files i, dget Nat.eqb i (st_out st) with
      | Some p, Some (Some c', _) => {| st_fs := write (st_fs st) p c'; st_rd := st_rd st; st_out := st_out st |}
      | _, _ => st
      end
  end.

Definition exec (files : list path) (T : transformer) (fnd : path -> findings) (fs0 : fsys) (tr : list ev) : state :=
  fold_left (step files T fnd) tr (init fs0).

(** One codemod over its file list: detector first, on the untouched project; then the pool. *)
Definition run_codemod (files : list path) (T : transformer) (D : detector) (fs0 : fsys) (tr : list ev) : state :=
  exec files T (D fs0) fs0 tr.

(** The sequential schedule (what --max-workers 1 does). *)
Definition sequential (n : nat) : list ev := concat (tasks n).

(* ------------------------------------------------------------------------------------------------ *)
(** * Merging the per-file results after the pool is drained *)
Definition res_of (st : state) (i : nat) : fres :=
  match dget Nat.eqb i (st_out st) with Some (_, r) => r | None => fres_empty end.
Definition completion_order (tr : list ev) : list nat :=
  flat_map (fun e => match e with Write i => [i] | _ => [] end) tr.
(** executor.map yields the results in the order of its input whatever the completion order. *)
Definition collect_order (v : collect_form) (n : nat) (tr : list ev) : list nat :=
  match v with MapInputOrder => seq 0 n | CompletionOrder => completion_order tr end.
Definition merged (v : collect_form) (n : nat) (tr : list ev) (st : state) : fres :=
  fold_left fres_add (map (res_of st) (collect_order v n tr)) fres_empty.

(* ------------------------------------------------------------------------------------------------ *)
(** * The bounded pool *)
Inductive pev := Start (i : nat) | Finish (i : nat).

Definition default_workers (cpu : N) : N := N.min 32 (cpu + 4).
(** the bound the executor is created with, given --max-workers [w] *)
Definition pool_bound (a : option pool_arg) (w cpu : N) : N :=
  match a with Some MaxWorkersArg => w | None => default_workers cpu end.

Definition mem_nat (i : nat) (l : list nat) : bool := existsb (Nat.eqb i) l.
Fixpoint remove_nat (i : nat) (l : list nat) : list nat :=
  match l with [] => [] | j :: r => if Nat.eqb i j then r else j :: remove_nat i r end.

(** Contract of ThreadPoolExecutor(max_workers=b): a submitted task is started only while fewer than [b]
    tasks are running; each task is started at most once and finishes only if it is running. *)
Fixpoint admissible (b : N) (running started : list nat) (tr : list pev) : bool :=
  match tr with
  | [] => true
  | Start i :: r =>
      (N.of_nat (length running) <? b)%N && negb (mem_nat i started) && admissible b (i :: running) (i :: started) r
  | Finish i :: r => mem_nat i running && admissible b (remove_nat i running) started r
  end.

Definition starts (tr : list pev) : nat := length (List.filter (fun e => match e with Start _ => true | _ => false end) tr).
Definition finishes (tr : list pev) : nat := length (List.filter (fun e => match e with Finish _ => true | _ => false end) tr).
(** files being processed after the trace [tr] *)
Definition inflight (tr : list pev) : nat := starts tr - finishes tr.
Fixpoint max_inflight_from (cur : nat) (tr : list pev) : nat :=
  match tr with
  | [] => cur
  | Start _ :: r => Nat.max cur (max_inflight_from (S cur) r)
  | Finish _ :: r => Nat.max cur (max_inflight_from (pred cur) r)
  end.
Definition max_inflight (tr : list pev) : nat := max_inflight_from 0 tr.

(* ------------------------------------------------------------------------------------------------ *)
(** * Registry order and the default / SAST selection *)
Definition cm_row := (str * bool)%type.            (* codemod id, origin == "pixee" *)
Definition entry_point := (N * list cm_row)%type.  (* identity of the entry point, the collection it loads *)

Fixpoint dedup_eps (seen : list N) (eps : list entry_point) : list entry_point :=
  match eps with
  | [] => []
  | e :: r => if existsb (N.eqb (fst e)) seen then dedup_eps seen r else e :: dedup_eps (fst e :: seen) r
  end.

Fixpoint insert_key {A} (key : A -> N) (e : A) (l : list A) : list A :=
  match l with
  | [] => [e]
  | y :: r => if (key e <=? key y)%N then e :: l else y :: insert_key key e r
  end.
(** iteration over a set: an order chosen by the seeded hash of the elements, here the key function *)
Definition sort_key {A} (key : A -> N) (l : list A) : list A := fold_right (insert_key key) [] l.
Definition set_order (h : N -> N) (l : list entry_point) : list entry_point := sort_key (fun e => h (fst e)) l.

(** load_registered_codemods: the order in which the collections are added *)
Definition iter_order (v : iter_form) (h : N -> N) (eps : list entry_point) : list entry_point :=
  match v with
  | Deterministic => dedup_eps [] eps
  | OverSet => set_order h (dedup_eps [] eps)
  end.
(** add_codemod_collection appends the codemods of each collection (ids are distinct) *)
Definition registry_of (v : iter_form) (h : N -> N) (eps : list entry_point) : list cm_row :=
  flat_map snd (iter_order v h eps).

(** match_codemods, no --codemod-include: registry order, minus the excluded names, pixee xor sast_only *)
Definition match_default (excluded : list str) (sast_only : bool) (reg : list cm_row) : list str :=
  map fst (List.filter (fun r => negb (mem_str (fst r) excluded) && xorb sast_only (snd r)) reg).
(** the order in which codemods run, which is also the order of [results] in the report (compile_results) *)
Definition run_order (v : iter_form) (h : N -> N) (eps : list entry_point) (excluded : list str) (sast_only : bool) : list str :=
  match_default excluded sast_only (registry_of v h eps).

(* ------------------------------------------------------------------------------------------------ *)
(** * Order of the matched files *)
Fixpoint str_leb (a b : str) : bool :=
  match a, b with
  | [], _ => true
  | _ :: _, [] => false
  | x :: a', y :: b' => if (x <? y)%N then true else if (y <? x)%N then false else str_leb a' b'
  end.
Fixpoint insert_sorted (x : str) (l : list str) : list str :=
  match l with
  | [] => [x]
  | y :: r => if str_leb x y then x :: l else y :: insert_sorted x r
  end.
Definition sort_paths (l : list str) : list str := fold_right insert_sorted [] l.
(** match_files: the matched relative paths (put in a set in enumeration order) as returned;
    [h] stands for the seeded hash of str *)
Definition match_order (v : order_form) (h : str -> N) (enumerated : list str) : list str :=
  match v with SortedPaths => sort_paths enumerated | SetOrder => sort_key h enumerated end.
