From CM Require Import Harness.C15_run. Eval vm_compute in models_table_ok. Eval vm_compute in models_diff.
