(** Correspondence instance of the orchestration model: the harness abstracts file contents and paths to small
    numbers, supplies the observed ORACLE values (what each transformer does to each content, which contents the
    semgrep rule of a codemod flags, what the manifest writer does) and the observed outcome of a real CLI run;
    Coq evaluates Model/Run.v (with the tables of the current source) on it and compares. *)
From CM Require Import Harness.RunBase Base.Dict Model.Run Spec.RunSpec Generated.Tables.

Definition hb (c : N) : bytes := [c].

Record hcodemod := {
  hc_id : N;
  hc_pipe : pipe_kind;              (* libcst / regex / XML transformer pipeline *)
  hc_base : base_kind;              (* FindAndFixCodemod / RemediationCodemod (file selection) *)
  hc_det : det_kind;
  hc_R : list (N * list N);         (* SAST-driven: findings of the codemod's rules per path (from the tool result file) *)
  hc_T : list (N * (N * list N));   (* content -> (new content, dependencies requested); one change reported *)
  hc_raise : list N;                (* contents on which the transformer raises *)
  hc_flag : list N;                 (* contents in which the codemod's own semgrep rule has a match *)
}.

Record hcase := {
  hx_dry : bool;
  hx_files : list N;                          (* find_and_fix_paths = files_to_analyze, in order *)
  hx_fs : list (N * N);                       (* path -> content *)
  hx_bad : list N;                            (* contents that cannot be decoded/parsed *)
  hx_codemods : list hcodemod;
  hx_stores : list (skind * N * list N);      (* kind, manifest path, declared names *)
  hx_W : list (N * list N * N);               (* (manifest content, new names) -> new manifest content *)
  ob_status : Z;
  ob_fs : list (N * N);                       (* observed path -> content after the run *)
  ob_rows : list (N * list N * list N * list N);   (* per result, in order: codemod, change-set paths, failedFiles, paths of unfixedFindings *)
}.

Definition memN (x : N) (l : list N) : bool := existsb (N.eqb x) l.
Definition head_or (l : bytes) : N := match l with x :: _ => x | [] => 0%N end.

Section Inst.
  Variable c : hcase.
  Definition h_find (K : codemod) : option hcodemod := find (fun h => N.eqb (hc_id h) (head_or (cid K))) (hx_codemods c).
  Definition h_parse (k : pipe_kind) (b : bytes) : option N :=
    match b with [x] => if memN x (hx_bad c) then None else Some x | _ => None end.
  Definition h_code (k : pipe_kind) (t : N) : bytes := hb t.
  Definition h_T (K : codemod) (t : N) (fi : option (list finding)) : outcome N :=
    match h_find K with
    | None => NoChange
    | Some h =>
        if memN t (hc_raise h) then Raise else
        match find (fun e => N.eqb (fst e) t) (hc_T h) with
        | Some (_, (t', ds)) => Changed t' [(1%N, match fi with Some l => l | None => [] end)] (map hb ds)
        | None => NoChange
        end
    end.
  Definition h_S (K : codemod) (p : path) (b : bytes) : list finding :=
    match h_find K with
    | Some h => if memN (head_or b) (hc_flag h) then [[1%N]] else []
    | None => []
    end.
  Definition h_R (K : codemod) : list (path * list finding) :=
    match h_find K with
    | Some h => map (fun e => (hb (fst e), map hb (snd e))) (hc_R h)
    | None => []
    end.
  Definition h_diff (a b : bytes) : str := if str_eqb a b then [] else [1%N].
  Definition h_W (k : skind) (content : option bytes) (ds : list dep) : option (bytes * str * list change) :=
    match content with
    | Some b =>
        match find (fun e => N.eqb (fst (fst e)) (head_or b) && list_eqb str_eqb (map hb (snd (fst e))) ds) (hx_W c) with
        | Some (_, n) => Some (hb n, [1%N], [(1%N, [])])
        | None => None
        end
    | None => None
    end.
  Definition h_cfg : config :=
    {| dry_run := hx_dry c; all_files := map hb (hx_files c); ff_paths := map hb (hx_files c); scan_all := map hb (hx_files c) |}.
  Definition h_Ks : list codemod :=
    map (fun h => {| cid := hb (hc_id h); cpipe := hc_pipe h; cdet := hc_det h; cbase := hc_base h; cavail := true |}) (hx_codemods c).
  Definition h_fs : fsys := map (fun e => (hb (fst e), hb (snd e))) (hx_fs c).
  Definition h_stores : list store :=
    map (fun e => {| st_kind := fst (fst e); st_path := hb (snd (fst e)); st_deps := map hb (snd e) |}) (hx_stores c).
  Definition h_run : run_result :=
    run run_tables_v N h_parse h_code h_T h_S h_R h_diff h_W (fun _ _ => true) h_cfg h_Ks h_fs h_stores.
End Inst.

Definition opt_bytes_eqb := option_eqb str_eqb.
Definition rows_of (c : hcase) (r : run_result) : option (list (N * list N * list N * list N)) :=
  match report (h_Ks c) r with
  | None => None
  | Some rows => Some (map (fun row => (head_or (r_codemod row), map (fun cs => head_or (cs_path cs)) (r_changeset row),
                                        map head_or (r_failed row),
                                        map (fun u => head_or (snd (fst (fst u)))) (r_unfixed row))) rows)
  end.
Definition row_eqb : (N * list N * list N * list N) -> (N * list N * list N * list N) -> bool :=
  pair_eqb (pair_eqb (pair_eqb N.eqb (list_eqb N.eqb)) (list_eqb N.eqb)) (list_eqb N.eqb).

(** MODEL vs IMPLEMENTATION: status, every observed path's final content, the report rows *)
Definition run_model_ok (c : hcase) : bool :=
  let r := h_run c in
  Z.eqb (exit_status r) (ob_status c) &&
  forallb (fun e => opt_bytes_eqb (lookup (final_fs r) (hb (fst e))) (Some (hb (snd e)))) (ob_fs c) &&
  match rows_of c r with
  | Some rows => list_eqb row_eqb rows (ob_rows c)
  | None => is_nil (ob_rows c)
  end.

(** SPEC of C04 on the observation: a dry run leaves every path's content as it was *)
Definition dry_spec_ok (c : hcase) : bool :=
  negb (hx_dry c) ||
  forallb (fun e => option_eqb N.eqb (dget N.eqb (fst e) (ob_fs c)) (Some (snd e))) (hx_fs c).
