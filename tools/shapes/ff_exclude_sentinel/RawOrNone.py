# src/codemodder/context.py (pinned): CodemodExecutionContext.find_and_fix_paths
class CodemodExecutionContext:
    @cached_property
    def find_and_fix_paths(self) -> list[Path]:
        return match_files(
            self.directory,
            self.files_to_analyze,
            # None is effectively a sentinel value to indicate that the default include/exclude paths should be used
            self.path_exclude or None,
            self.path_include or None,
        )
