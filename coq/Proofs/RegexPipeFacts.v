(** Lemmas about Model/RegexPipe.v: both loops compute the reference spec of Spec/RegexPipeSpec.v. *)
From CM Require Import Model.RegexPipe Spec.RegexPipeSpec.
From Coq Require Import Lia Sorted.

(** ** numbering *)
Lemma number_from_length {A} k (l : list A) : length (number_from k l) = length l.
Proof. revert k; induction l; intros; simpl; auto. Qed.

Lemma number_from_nth_error {A} (l : list A) : forall k i,
  nth_error (number_from k l) i = option_map (fun x => ((k + N.of_nat i)%N, x)) (nth_error l i).
Proof.
  induction l as [|x r IH]; intros k [|i]; simpl; try reflexivity.
  - now rewrite N.add_0_r.
  - rewrite IH. destruct (nth_error r i); simpl; [|reflexivity]. do 2 f_equal. lia.
Qed.

Lemma number_from_In {A} (l : list A) : forall k n x,
  In (n, x) (number_from k l) <-> exists i, nth_error l i = Some x /\ n = (k + N.of_nat i)%N.
Proof.
  intros k n x. split.
  - intros H. apply In_nth_error in H. destruct H as [i Hi]. rewrite number_from_nth_error in Hi.
    destruct (nth_error l i) eqn:E; simpl in Hi; [|discriminate]. inversion Hi; subst. eauto.
  - intros [i [Hi ->]]. apply nth_error_In with i. rewrite number_from_nth_error, Hi. reflexivity.
Qed.

Lemma number_from_lb {A} (l : list A) : forall k, Forall (fun p => (k <= fst p)%N) (number_from k l).
Proof.
  induction l as [|x r IH]; intros k; simpl; constructor; simpl; [lia|].
  eapply Forall_impl; [|apply (IH (k + 1)%N)]. simpl. intros; lia.
Qed.

(** positions are strictly increasing, also after filtering *)
Lemma number_from_filter_sorted {A} (f : N * A -> bool) (l : list A) : forall k,
  StronglySorted N.lt (map fst (List.filter f (number_from k l))).
Proof.
  induction l as [|x r IH]; intros k; simpl; [constructor|].
  destruct (f (k, x)); simpl; [|apply IH].
  constructor; [apply IH|].
  apply Forall_forall. intros n Hn. apply in_map_iff in Hn. destruct Hn as [[n' y] [<- Hin]].
  apply filter_In in Hin. destruct Hin as [Hin _].
  pose proof (number_from_lb r (k + 1)%N) as HF. rewrite Forall_forall in HF. specialize (HF _ Hin). simpl in *. lia.
Qed.

Definition edited_from (k : N) (orig upd : list str) : list N :=
  map fst (List.filter (fun p => negb (str_eqb (fst (snd p)) (snd (snd p)))) (number_from k (List.combine orig upd))).
Lemma edited_lines_from orig upd : edited_lines orig upd = edited_from 1 orig upd.
Proof. reflexivity. Qed.

Lemma edited_from_cons k a b o u :
  edited_from k (a :: o) (b :: u) = if str_eqb a b then edited_from (k + 1) o u else k :: edited_from (k + 1) o u.
Proof. unfold edited_from. simpl. destruct (str_eqb a b); reflexivity. Qed.

Lemma nth_error_combine {A B} (a : list A) : forall (b : list B) i,
  nth_error (List.combine a b) i =
  match nth_error a i, nth_error b i with Some x, Some y => Some (x, y) | _, _ => None end.
Proof.
  induction a as [|x a IH]; intros [|y b] [|i]; simpl; try reflexivity.
  - destruct (nth_error a i); reflexivity.
  - apply IH.
Qed.

(** an edit is a position at which the two lines differ, and conversely *)
Lemma edited_from_In k orig upd n :
  In n (edited_from k orig upd) <->
  exists i a b, nth_error orig i = Some a /\ nth_error upd i = Some b /\ a <> b /\ n = (k + N.of_nat i)%N.
Proof.
  unfold edited_from. rewrite in_map_iff. split.
  - intros [[n' [a b]] [Hn Hin]]. simpl in Hn. subst n'. apply filter_In in Hin. destruct Hin as [Hin Hne]. simpl in Hne.
    apply number_from_In in Hin. destruct Hin as [i [Hi ->]]. exists i, a, b.
    rewrite nth_error_combine in Hi.
    destruct (nth_error orig i) as [a'|]; [|discriminate].
    destruct (nth_error upd i) as [b'|]; [|discriminate]. inversion Hi; subst.
    repeat split; auto. intros ->. rewrite str_eqb_refl in Hne. discriminate.
  - intros [i [a [b [Ha [Hb [Hne ->]]]]]]. exists ((k + N.of_nat i)%N, (a, b)). split; [reflexivity|].
    apply filter_In. split.
    + apply number_from_In. exists i. split; [|reflexivity]. rewrite nth_error_combine, Ha, Hb. reflexivity.
    + simpl. apply negb_true_iff. apply str_eqb_neq. exact Hne.
Qed.

Lemma edited_from_sorted k orig upd : StronglySorted N.lt (edited_from k orig upd).
Proof. apply number_from_filter_sorted. Qed.

Lemma edited_from_nil_eq : forall orig upd k, length orig = length upd -> edited_from k orig upd = [] -> orig = upd.
Proof.
  induction orig as [|a o IH]; intros [|b u] k Hl He; simpl in Hl; try discriminate; [reflexivity|].
  rewrite edited_from_cons in He. destruct (str_eqb_spec a b) as [->|]; [|discriminate].
  f_equal. apply (IH u (k + 1)%N); [lia|exact He].
Qed.

Lemma edited_from_same : forall l k, edited_from k l l = [].
Proof. induction l as [|a l IH]; intros k; [reflexivity|]. rewrite edited_from_cons, str_eqb_refl. apply IH. Qed.

(** ** findings index *)
Definition fidx (v : index_form) (n : N) : N := match v with OneBased => n | ZeroBased => N.pred n end.
Lemma fidx_succ v k : fidx v (k + 1) = idx v k.
Proof. destruct v; simpl; [|reflexivity]. rewrite N.add_1_r. apply N.pred_succ. Qed.

Section Loops.
  Variable sub : str -> str.
  Variable fc : list result.

  Definition mkc (v : index_form) (n : N) : change := {| c_line := n; c_findings := findings_for_location fc (fidx v n) |}.

  Definition upd_from (targeted : N -> bool) (k : N) (lines : list str) : list str :=
    map (fun p => if targeted (fst p) then sub (snd p) else snd p) (number_from k lines).
  Definition unf_from (targeted : N -> bool) (k : N) (lines : list str) : list unfixed :=
    flat_map (fun p => if targeted (fst p) && str_eqb (snd p) (sub (snd p))
                       then map (fun f => (f, fst p)) (findings_for_location fc (fst p)) else [])
             (number_from k lines).

  Lemma upd_from_all k lines : upd_from all_lines k lines = map sub lines.
  Proof. unfold upd_from. revert k; induction lines as [|l r IH]; intros k; simpl; [reflexivity|]. f_equal. apply IH. Qed.

  Lemma upd_from_length t k lines : length (upd_from t k lines) = length lines.
  Proof. unfold upd_from. now rewrite map_length, number_from_length. Qed.

  Lemma regex_loop_eq v : forall lines k,
    regex_loop sub fc v k lines =
    (map (mkc v) (edited_from (k + 1) lines (map sub lines)), map sub lines).
  Proof.
    induction lines as [|l r IH]; intros k; [reflexivity|].
    cbn [regex_loop map]. rewrite IH, edited_from_cons.
    destruct (str_eqb l (sub l)); [reflexivity|].
    cbn [map]. unfold mkc at 2. now rewrite fidx_succ.
  Qed.

  Lemma sast_loop_eq v L : forall lines k,
    sast_loop sub fc v L k lines =
    (map (mkc v) (edited_from (k + 1) lines (upd_from (fun n => mem_N n L) (k + 1) lines)),
     upd_from (fun n => mem_N n L) (k + 1) lines,
     unf_from (fun n => mem_N n L) (k + 1) lines).
  Proof.
    induction lines as [|l r IH]; intros k; [reflexivity|].
    cbn [sast_loop]. rewrite IH. unfold upd_from, unf_from. cbn [number_from map flat_map fst snd].
    rewrite edited_from_cons.
    destruct (mem_N (k + 1) L); cbn [andb].
    - destruct (str_eqb l (sub l)) eqn:E.
      + unfold report_unfixed. reflexivity.
      + cbn [map app]. unfold mkc at 2. now rewrite fidx_succ.
    - rewrite str_eqb_refl. reflexivity.
  Qed.
End Loops.

(** ** get_findings_for_location returns exactly the findings whose range contains the line *)
Lemma findings_for_location_In fc n f :
  In f (findings_for_location fc n) <->
  exists r, In r fc /\ r_finding r = Some f /\ exists l, In l (r_locs r) /\ (fst l <= n <= snd l)%N.
Proof.
  unfold findings_for_location. rewrite in_flat_map. split.
  - intros [r [Hr Hin]]. exists r. split; [exact Hr|].
    destruct (result_at n r) eqn:E; [|destruct Hin].
    unfold finding_list in Hin. destruct (r_finding r) as [g|]; [|destruct Hin].
    destruct Hin as [->|[]]. split; [reflexivity|].
    unfold result_at in E. apply existsb_exists in E. destruct E as [l [Hl Hc]]. exists l. split; [exact Hl|].
    unfold loc_contains in Hc. apply andb_true_iff in Hc. destruct Hc as [H1 H2].
    apply N.leb_le in H1, H2. lia.
  - intros [r [Hr [Hf [l [Hl Hc]]]]]. exists r. split; [exact Hr|].
    assert (E : result_at n r = true).
    { unfold result_at. apply existsb_exists. exists l. split; [exact Hl|]. unfold loc_contains.
      apply andb_true_iff. split; apply N.leb_le; lia. }
    rewrite E. unfold finding_list. rewrite Hf. left; reflexivity.
Qed.

Lemma mem_N_In n l : mem_N n l = true <-> In n l.
Proof.
  unfold mem_N. rewrite existsb_exists. split.
  - intros [x [Hx E]]. apply N.eqb_eq in E. now subst.
  - intros H. exists n. split; [exact H|apply N.eqb_refl].
Qed.

Section Results.
  Variable sub : str -> str.
  Variable fc : list result.

  Lemma spec_updated_from t lines : spec_updated sub t lines = upd_from sub t 1 lines.
  Proof. reflexivity. Qed.
  Lemma spec_unfixed_from t lines : spec_unfixed sub fc t lines = unf_from sub fc t 1 lines.
  Proof. reflexivity. Qed.
  Lemma spec_changes_mkc t lines :
    spec_changes sub fc t lines = map (mkc fc OneBased) (edited_lines lines (spec_updated sub t lines)).
  Proof. reflexivity. Qed.

  Lemma spec_updated_all lines : spec_updated sub all_lines lines = map sub lines.
  Proof. apply upd_from_all. Qed.
  Lemma spec_updated_length t lines : length (spec_updated sub t lines) = length lines.
  Proof. apply upd_from_length. Qed.

  Lemma spec_updated_nth t lines i l :
    nth_error lines i = Some l ->
    nth_error (spec_updated sub t lines) i = Some (if t (N.of_nat i + 1)%N then sub l else l).
  Proof.
    intros H. unfold spec_updated. rewrite nth_error_map, number_from_nth_error, H. cbn [option_map fst snd].
    replace (1 + N.of_nat i)%N with (N.of_nat i + 1)%N by lia. reflexivity.
  Qed.

  Lemma regex_apply_lines_eq v lines :
    regex_apply_lines sub fc v lines =
    (map (mkc fc v) (edited_lines lines (spec_updated sub all_lines lines)), spec_updated sub all_lines lines, []).
  Proof. unfold regex_apply_lines. rewrite regex_loop_eq, spec_updated_all. reflexivity. Qed.

  Lemma sast_apply_lines_eq v r rs lines :
    sast_apply_lines sub fc v (Some (r :: rs)) lines =
    Some (map (mkc fc v) (edited_lines lines (spec_updated sub (sast_targets (r :: rs)) lines)),
          spec_updated sub (sast_targets (r :: rs)) lines,
          spec_unfixed sub fc (sast_targets (r :: rs)) lines).
  Proof. unfold sast_apply_lines. rewrite sast_loop_eq. reflexivity. Qed.

  Lemma sast_targets_nil n : sast_targets [] n = false.
  Proof. reflexivity. Qed.
  Lemma upd_from_none t k lines : (forall n, t n = false) -> upd_from sub t k lines = lines.
  Proof.
    intros Ht. unfold upd_from. revert k. induction lines as [|l r IH]; intros k; simpl; [reflexivity|].
    rewrite Ht. f_equal. apply IH.
  Qed.
  Lemma unf_from_none t k lines : (forall n, t n = false) -> unf_from sub fc t k lines = [].
  Proof.
    intros Ht. unfold unf_from. revert k. induction lines as [|l r IH]; intros k; simpl; [reflexivity|].
    rewrite Ht. simpl. apply IH.
  Qed.

  (** ** apply *)
  Section Apply.
    Context {D : Type} (mkdiff : list str -> list str -> D).

    Lemma finish_apply_eq dry lines v t unf :
      finish_apply mkdiff dry lines
        (map (mkc fc v) (edited_lines lines (spec_updated sub t lines)), spec_updated sub t lines, unf) =
      {| ao_ret := match edited_lines lines (spec_updated sub t lines) with
                   | [] => None
                   | e => Some {| cs_diff := mkdiff lines (spec_updated sub t lines); cs_changes := map (mkc fc v) e |}
                   end;
         ao_file := spec_file sub t dry lines;
         ao_unfixed := unf |}.
    Proof.
      unfold finish_apply, spec_file.
      destruct (edited_lines lines (spec_updated sub t lines)) as [|e es] eqn:E; cbn [map].
      - f_equal. destruct dry; [reflexivity|]. f_equal.
        apply (edited_from_nil_eq _ _ 1%N); [now rewrite spec_updated_length|exact E].
      - reflexivity.
    Qed.

    Lemma regex_apply_eq v dry lines :
      regex_apply sub fc mkdiff v dry lines =
      {| ao_ret := match edited_lines lines (map sub lines) with
                   | [] => None
                   | e => Some {| cs_diff := mkdiff lines (map sub lines); cs_changes := map (mkc fc v) e |}
                   end;
         ao_file := if dry then concat lines else concat (map sub lines);
         ao_unfixed := [] |}.
    Proof.
      unfold regex_apply. rewrite regex_apply_lines_eq, finish_apply_eq. unfold spec_file.
      rewrite spec_updated_all. reflexivity.
    Qed.

    Lemma sast_apply_eq v dry rs lines :
      sast_apply sub fc mkdiff v dry (Some rs) lines =
      Some {| ao_ret := match edited_lines lines (spec_updated sub (sast_targets rs) lines) with
                        | [] => None
                        | e => Some {| cs_diff := mkdiff lines (spec_updated sub (sast_targets rs) lines);
                                       cs_changes := map (mkc fc v) e |}
                        end;
              ao_file := spec_file sub (sast_targets rs) dry lines;
              ao_unfixed := spec_unfixed sub fc (sast_targets rs) lines |}.
    Proof.
      unfold sast_apply. destruct rs as [|r rs].
      - cbn [sast_apply_lines option_map finish_apply]. f_equal.
        unfold spec_file. rewrite spec_updated_from, spec_unfixed_from.
        rewrite upd_from_none, unf_from_none by apply sast_targets_nil.
        rewrite edited_lines_from, edited_from_same. destruct dry; reflexivity.
      - rewrite sast_apply_lines_eq. cbn [option_map]. now rewrite finish_apply_eq.
    Qed.
  End Apply.
End Results.

(** ** the statements of Properties/C19.v (regex half) *)
Lemma r_of_regex sub fc v lines :
  r_changes (regex_apply_lines sub fc v lines) = map (mkc fc v) (edited_lines lines (map sub lines)) /\
  r_updated (regex_apply_lines sub fc v lines) = map sub lines.
Proof. rewrite regex_apply_lines_eq, spec_updated_all. split; reflexivity. Qed.

Lemma map_c_line_mkc fc v l : map c_line (map (mkc fc v) l) = l.
Proof. rewrite map_map. simpl. apply map_id. Qed.

Lemma regex_untargeted_identical :
  forall (sub : str -> str) fc v lines,
    let upd := r_updated (regex_apply_lines sub fc v lines) in
    length upd = length lines /\
    (forall i l, nth_error lines i = Some l -> nth_error upd i = Some (sub l)) /\
    (forall i l, nth_error lines i = Some l -> sub l = l -> nth_error upd i = Some l) /\
    (forall D (mkdiff : list str -> list str -> D) dry,
        ao_file (regex_apply sub fc mkdiff v dry lines) = if dry then concat lines else concat upd).
Proof.
  intros sub fc v lines upd. subst upd. destruct (r_of_regex sub fc v lines) as [_ ->].
  split; [apply map_length|]. split; [|split].
  - intros i l H. rewrite nth_error_map, H. reflexivity.
  - intros i l H E. rewrite nth_error_map, H. simpl. now rewrite E.
  - intros D mkdiff dry. rewrite regex_apply_eq. reflexivity.
Qed.

Lemma regex_changes_eq_edits :
  forall (sub : str -> str) fc v lines,
    let r := regex_apply_lines sub fc v lines in
    map c_line (r_changes r) = edited_lines lines (r_updated r) /\
    StronglySorted N.lt (map c_line (r_changes r)) /\
    (forall n, In n (map c_line (r_changes r)) <->
               exists i a b, nth_error lines i = Some a /\ nth_error (r_updated r) i = Some b /\ a <> b /\
                             n = (1 + N.of_nat i)%N).
Proof.
  intros sub fc v lines r. subst r. destruct (r_of_regex sub fc v lines) as [-> ->].
  rewrite map_c_line_mkc. split; [reflexivity|]. split.
  - apply edited_from_sorted.
  - intros n. apply edited_from_In.
Qed.

Lemma sast_changes_eq_edits :
  forall (sub : str -> str) fc v rs lines r,
    sast_apply_lines sub fc v (Some rs) lines = Some r -> rs <> [] ->
    map c_line (r_changes r) = edited_lines lines (r_updated r) /\
    StronglySorted N.lt (map c_line (r_changes r)).
Proof.
  intros sub fc v [|r0 rs] lines r H Hne; [congruence|].
  rewrite sast_apply_lines_eq in H. inversion H; subst r. unfold r_changes, r_updated. cbn [fst snd].
  rewrite map_c_line_mkc. split; [reflexivity|apply edited_from_sorted].
Qed.

Lemma regex_dry :
  forall (sub : str -> str) fc D (mkdiff : list str -> list str -> D) v lines,
    let dry := regex_apply sub fc mkdiff v true lines in
    let real := regex_apply sub fc mkdiff v false lines in
    let upd := r_updated (regex_apply_lines sub fc v lines) in
    ao_file dry = concat lines /\ ao_ret dry = ao_ret real /\ ao_unfixed dry = ao_unfixed real /\
    (ao_ret real = None <-> edited_lines lines upd = []) /\
    (ao_ret real = None -> ao_file real = concat lines) /\
    (forall cs, ao_ret real = Some cs -> ao_file real = concat upd /\ cs_diff cs = mkdiff lines upd /\ cs_changes cs <> []).
Proof.
  intros sub fc D mkdiff v lines dry real upd. subst dry real upd.
  destruct (r_of_regex sub fc v lines) as [_ ->]. rewrite !regex_apply_eq. cbn [ao_file ao_ret ao_unfixed].
  split; [reflexivity|]. split; [reflexivity|]. split; [reflexivity|].
  destruct (edited_lines lines (map sub lines)) as [|e es] eqn:E.
  - split; [tauto|]. split; [|discriminate]. intros _. f_equal. symmetry.
    apply (edited_from_nil_eq _ _ 1%N); [now rewrite map_length|exact E].
  - split; [split; discriminate|]. split; [discriminate|].
    intros cs H. inversion H; subst cs. cbn. repeat split; discriminate.
Qed.

Lemma sast_dry :
  forall (sub : str -> str) fc D (mkdiff : list str -> list str -> D) v rs lines,
    exists dry real,
      sast_apply sub fc mkdiff v true (Some rs) lines = Some dry /\
      sast_apply sub fc mkdiff v false (Some rs) lines = Some real /\
      ao_file dry = concat lines /\ ao_ret dry = ao_ret real /\ ao_unfixed dry = ao_unfixed real /\
      (ao_ret real = None -> ao_file real = concat lines) /\
      (forall cs, ao_ret real = Some cs ->
                  ao_file real = concat (spec_updated sub (sast_targets rs) lines) /\
                  cs_diff cs = mkdiff lines (spec_updated sub (sast_targets rs) lines)).
Proof.
  intros sub fc D mkdiff v rs lines. rewrite !sast_apply_eq. eexists; eexists.
  split; [reflexivity|]. split; [reflexivity|]. cbn [ao_file ao_ret ao_unfixed]. unfold spec_file.
  split; [reflexivity|]. split; [reflexivity|]. split; [reflexivity|].
  destruct (edited_lines lines (spec_updated sub (sast_targets rs) lines)) as [|e es] eqn:E.
  - split; [|discriminate]. intros _. f_equal. symmetry.
    apply (edited_from_nil_eq _ _ 1%N); [now rewrite spec_updated_length|exact E].
  - split; [discriminate|]. intros cs H. inversion H; subst cs. split; reflexivity.
Qed.

Lemma edited_lines_targeted sub t lines n :
  In n (edited_lines lines (spec_updated sub t lines)) -> t n = true.
Proof.
  intros H. apply edited_from_In in H. destruct H as [i [a [b [Ha [Hb [Hne ->]]]]]].
  rewrite (spec_updated_nth sub t lines i a Ha) in Hb.
  replace (1 + N.of_nat i)%N with (N.of_nat i + 1)%N by lia.
  destruct (t (N.of_nat i + 1)%N); [reflexivity|]. congruence.
Qed.

Lemma sast_only_finding_lines :
  forall (sub : str -> str) fc D (mkdiff : list str -> list str -> D) v dry rs lines,
    exists out,
      sast_apply sub fc mkdiff v dry (Some rs) lines = Some out /\
      ao_file out = spec_file sub (sast_targets rs) dry lines /\
      ao_unfixed out = spec_unfixed sub fc (sast_targets rs) lines /\
      length (spec_updated sub (sast_targets rs) lines) = length lines /\
      (forall i l, nth_error lines i = Some l ->
                   nth_error (spec_updated sub (sast_targets rs) lines) i =
                   Some (if mem_N (N.of_nat i + 1) (start_lines rs) then sub l else l)) /\
      (forall cs c, ao_ret out = Some cs -> In c (cs_changes cs) -> In (c_line c) (start_lines rs)).
Proof.
  intros sub fc D mkdiff v dry rs lines. rewrite sast_apply_eq. eexists. split; [reflexivity|].
  cbn [ao_file ao_ret ao_unfixed]. split; [reflexivity|]. split; [reflexivity|].
  split; [apply spec_updated_length|]. split.
  - intros i l H. apply (spec_updated_nth sub (sast_targets rs) lines i l H).
  - intros cs c Hcs Hc.
    destruct (edited_lines lines (spec_updated sub (sast_targets rs) lines)) as [|e es] eqn:E; [discriminate|].
    inversion Hcs; subst cs. cbn [cs_changes] in Hc.
    change (In c (map (mkc fc v) (e :: es))) in Hc. apply in_map_iff in Hc. destruct Hc as [n [<- Hn]].
    cbn [mkc c_line]. rewrite <- E in Hn. apply edited_lines_targeted in Hn.
    unfold sast_targets in Hn. now apply mem_N_In.
Qed.

Definition finding_in_range' (fc : list result) (n f : N) : Prop :=
  exists r, In r fc /\ r_finding r = Some f /\ exists l, In l (r_locs r) /\ (fst l <= n <= snd l)%N.

(** witness of the off-by-one: two lines, both changed, one finding on line 2 *)
Definition w_sub : str -> str := fun l => 120%N :: l.
Definition w_fc : list result := [ {| r_locs := [(2, 2)%N]; r_finding := Some 7%N |} ].
Definition w_lines : list str := [[97; 10]; [98; 10]]%N.
Definition w_change : change := {| c_line := 2; c_findings := [] |}.

Lemma C19_regex_findings_all (v : index_form) :
  match v with
  | OneBased =>
      forall (sub : str -> str) fc lines c,
        In c (r_changes (regex_apply_lines sub fc v lines)) ->
        c_findings c = findings_for_location fc (c_line c) /\
        (forall f, In f (c_findings c) <-> finding_in_range' fc (c_line c) f)
  | ZeroBased =>
      exists (sub : str -> str) fc lines c,
        In c (r_changes (regex_apply_lines sub fc v lines)) /\
        c_findings c <> findings_for_location fc (c_line c)
  end.
Proof.
  destruct v.
  - exists w_sub, w_fc, w_lines, w_change. split; [vm_compute; auto|vm_compute; discriminate].
  - intros sub fc lines c Hc. destruct (r_of_regex sub fc OneBased lines) as [E _]. rewrite E in Hc.
    apply in_map_iff in Hc. destruct Hc as [n [<- _]]. cbn [mkc c_line c_findings fidx].
    split; [reflexivity|]. intros f. apply findings_for_location_In.
Qed.

Lemma C19_sast_findings_all (v : index_form) :
  match v with
  | OneBased =>
      forall (sub : str -> str) fc rs lines r c,
        sast_apply_lines sub fc v (Some rs) lines = Some r -> In c (r_changes r) ->
        c_findings c = findings_for_location fc (c_line c) /\
        (forall f, In f (c_findings c) <-> finding_in_range' fc (c_line c) f)
  | ZeroBased =>
      exists (sub : str -> str) fc rs lines r c,
        sast_apply_lines sub fc v (Some rs) lines = Some r /\ In c (r_changes r) /\
        c_findings c <> findings_for_location fc (c_line c)
  end.
Proof.
  destruct v.
  - exists w_sub, w_fc, w_fc, w_lines. eexists. exists w_change.
    split; [vm_compute; reflexivity|]. split; [vm_compute; auto|vm_compute; discriminate].
  - intros sub fc [|r0 rs] lines r c H Hc.
    + cbn in H. inversion H; subst r. destruct Hc.
    + rewrite sast_apply_lines_eq in H. inversion H; subst r. unfold r_changes in Hc. cbn [fst] in Hc.
      apply in_map_iff in Hc. destruct Hc as [n [<- _]]. cbn [mkc c_line c_findings fidx].
      split; [reflexivity|]. intros f. apply findings_for_location_In.
Qed.

Lemma regex_model_is_spec :
  forall (sub : str -> str) fc lines,
    regex_apply_lines sub fc OneBased lines =
    (spec_changes sub fc all_lines lines, spec_updated sub all_lines lines, []) /\
    forall r rs, sast_apply_lines sub fc OneBased (Some (r :: rs)) lines =
                 Some (spec_changes sub fc (sast_targets (r :: rs)) lines,
                       spec_updated sub (sast_targets (r :: rs)) lines,
                       spec_unfixed sub fc (sast_targets (r :: rs)) lines).
Proof.
  intros sub fc lines. split.
  - rewrite regex_apply_lines_eq. reflexivity.
  - intros r rs. rewrite sast_apply_lines_eq. reflexivity.
Qed.

(** ** the whole of apply(): read/decode + failure handling (table-indexed on [regex_isolation]) *)
Definition failure_unfixed (fc : list result) : list unfixed := map (fun f => (f, 0%N)) (all_findings fc).

Lemma regex_apply_file_decoded (sub : str -> str) fc D (mkdiff : list str -> list str -> D) iso v dry lines :
  regex_apply_file sub fc mkdiff iso v dry (Some lines) = Done (regex_apply sub fc mkdiff v dry lines) /\
  forall rs, exists o, sast_apply sub fc mkdiff v dry (Some rs) lines = Some o /\
                       sast_apply_file sub fc mkdiff iso v dry (Some rs) (Some lines) = Done o.
Proof.
  split; [reflexivity|]. intros rs. unfold sast_apply_file. rewrite sast_apply_eq. eexists. split; reflexivity.
Qed.

Definition regex_isolation_statement (iso : regex_isolation) : Prop :=
  match iso with
  | TryReadTransform =>
      forall (sub : str -> str) fc D (mkdiff : list str -> list str -> D) v dry,
        (* an undecodable file: failure recorded, nothing written, every finding of the file unfixed at line 0 *)
        regex_apply_file sub fc mkdiff iso v dry None = Failed ReadFailed (failure_unfixed fc) /\
        (forall results, sast_apply_file sub fc mkdiff iso v dry results None = Failed ReadFailed (failure_unfixed fc)) /\
        (* _apply raising (SAST class handed results=None): the same with the other reason *)
        (forall lines, sast_apply_file sub fc mkdiff iso v dry None (Some lines) = Failed TransformFailed (failure_unfixed fc)) /\
        (* nothing escapes *)
        (forall decoded, regex_apply_file sub fc mkdiff iso v dry decoded <> Raises) /\
        (forall results decoded, sast_apply_file sub fc mkdiff iso v dry results decoded <> Raises)
  | NoTry =>
      exists (sub : str -> str) fc lines,
        regex_apply_file sub fc (fun _ _ => tt) iso OneBased false None = Raises /\
        sast_apply_file sub fc (fun _ _ => tt) iso OneBased false None (Some lines) = Raises
  end.

Lemma regex_isolation_all iso : regex_isolation_statement iso.
Proof.
  destruct iso; cbn [regex_isolation_statement].
  - exists w_sub, w_fc, w_lines. split; reflexivity.
  - intros sub fc D mkdiff v dry. split; [reflexivity|]. split; [reflexivity|]. split; [reflexivity|]. split.
    + intros [lines|]; discriminate.
    + intros results [lines|]; [|discriminate]. unfold sast_apply_file.
      destruct (sast_apply sub fc mkdiff v dry results lines); discriminate.
Qed.

(** ** the code's SAST targeting (start lines) against the property's words (lines that carry a finding) *)
Lemma sast_targets_carry rs n : sast_targets rs n = true -> carries rs n = true.
Proof.
  unfold sast_targets, carries, start_lines. intros H. apply mem_N_In in H. apply in_flat_map in H.
  destruct H as [r [Hr Hn]]. apply in_map_iff in Hn. destruct Hn as [l [Hl Hin]].
  apply existsb_exists. exists r. split; [exact Hr|]. apply existsb_exists. exists l. split; [exact Hin|].
  rewrite Hl, N.eqb_refl. apply orb_true_r.
Qed.

Lemma admissible_from_meaning (sub : str -> str) cand : forall lines upd k,
  admissible_from sub cand k lines upd = true <->
  (List.length upd = List.length lines /\
   forall i l u, nth_error lines i = Some l -> nth_error upd i = Some u ->
                 u = l \/ (cand (k + N.of_nat i)%N = true /\ u = sub l)).
Proof.
  induction lines as [|l ls IH]; intros [|u us] k; cbn [admissible_from].
  - split; [intros _; split; [reflexivity|]; intros [|i] ? ? H; discriminate|reflexivity].
  - split; [discriminate|]. intros [H _]. discriminate.
  - split; [discriminate|]. intros [H _]. discriminate.
  - rewrite andb_true_iff, IH. split.
    + intros [Hh [Hlen Ht]]. split; [cbn; now rewrite Hlen|].
      intros [|i] l0 u0 Hl Hu; cbn in Hl, Hu.
      * inversion Hl; inversion Hu; subst. rewrite N.add_0_r.
        apply orb_true_iff in Hh. destruct Hh as [Hh|Hh].
        -- left. now apply str_eqb_eq.
        -- apply andb_true_iff in Hh. destruct Hh as [Hc He]. right. split; [exact Hc|]. now apply str_eqb_eq.
      * replace (k + N.of_nat (S i))%N with (k + 1 + N.of_nat i)%N by lia. now apply (Ht i).
    + intros [Hlen Ht]. split; [|split].
      * destruct (Ht 0%nat l u eq_refl eq_refl) as [->|[Hc ->]].
        -- rewrite str_eqb_refl. reflexivity.
        -- rewrite N.add_0_r in Hc. rewrite Hc, str_eqb_refl. apply orb_true_r.
      * cbn in Hlen. now inversion Hlen.
      * intros i l0 u0 Hl Hu. replace (k + 1 + N.of_nat i)%N with (k + N.of_nat (S i))%N by lia. now apply (Ht (S i)).
Qed.

Lemma admissible_from_mono (sub : str -> str) (c1 c2 : N -> bool) :
  (forall n, c1 n = true -> c2 n = true) ->
  forall lines upd k, admissible_from sub c1 k lines upd = true -> admissible_from sub c2 k lines upd = true.
Proof.
  intros Hc. induction lines as [|l ls IH]; intros [|u us] k H; cbn [admissible_from] in *; try congruence.
  apply andb_true_iff in H. destruct H as [Hh Ht]. apply andb_true_iff. split; [|now apply IH].
  apply orb_true_iff in Hh. apply orb_true_iff. destruct Hh as [Hh|Hh]; [now left|right].
  apply andb_true_iff in Hh. destruct Hh as [H1 H2]. now rewrite (Hc _ H1), H2.
Qed.

Lemma upd_from_admissible (sub : str -> str) t : forall lines k,
  admissible_from sub t k lines (upd_from sub t k lines) = true.
Proof.
  unfold upd_from. induction lines as [|l ls IH]; intros k; [reflexivity|].
  cbn [number_from map fst snd admissible_from]. rewrite IH, andb_true_r.
  destruct (t k); [now rewrite str_eqb_refl, orb_true_r|now rewrite str_eqb_refl].
Qed.

(** the code's reading satisfies the text's: whatever the results, the SAST pipeline's output is an admissible update
    w.r.t. the lines that carry a finding *)
Lemma sast_text_reading (sub : str -> str) rs lines :
  admissible sub (carries rs) lines (spec_updated sub (sast_targets rs) lines) = true.
Proof.
  unfold admissible. apply (admissible_from_mono sub (sast_targets rs)); [apply sast_targets_carry|].
  rewrite spec_updated_from. apply upd_from_admissible.
Qed.
