# src/codemodder/codemods/base_visitor.py at the commit the model was written against (shape reference; not executed)
class UtilsMixin:
    def filter_by_result(self, node: cst.CSTNode) -> bool:
        # Codemods with detectors will only run their transformations if there are results.
        return self.results is None or any(self.results_for_node(node))

    @cache
    def results_for_node(self, node: cst.CSTNode) -> list[Result]:
        pos_to_match = self.node_position(node)
        return (
            [
                result
                for result in self.results
                if result.match_location(pos_to_match, node)
            ]
            if self.results
            else []
        )

    def node_is_selected(self, node) -> bool:
        pos_to_match = self.node_position(node)
        return self.filter_by_result(node) and self.filter_by_path_includes_or_excludes(
            pos_to_match
        )

    def node_position(self, node):
        # See https://github.com/Instagram/LibCST/blob/main/libcst/_metadata_dependent.py#L112
        match node:
            case cst.FunctionDef():
                # By default a function's position includes the entire
                # function definition. Instead, we will only use the first line
                # of the function definition.
                params_end = cast(
                    CodeRange, self.get_metadata(PositionProvider, node.params)
                ).end
                return CodeRange(
                    start=cast(
                        CodeRange, self.get_metadata(PositionProvider, node)
                    ).start,
                    end=CodePosition(params_end.line, params_end.column + 1),
                )
            case _:
                return cast(CodeRange, self.get_metadata(PositionProvider, node))

    def filter_by_path_includes_or_excludes(self, pos_to_match):
        """
        Returns True if the node, whose position in the file is pos_to_match, matches any of the lines specified in the path-includes or path-excludes flags.
        """
        # an excluded line is never selected; when lines are included, only those are
        if self.line_exclude and any(
            match_line(pos_to_match, line) for line in self.line_exclude
        ):
            return False
        if self.line_include:
            return any(match_line(pos_to_match, line) for line in self.line_include)
        return True

def match_line(pos, line):
    return pos.start.line == line and pos.end.line == line

